/-
  Props/C04.lean — property C04: transform strings and Matrix algebra follow SVG/CSS transform
  semantics. Only property theorems and their non-vacuity examples live here.

  All statements are over an arbitrary field `K` (hence ℚ and ℝ); `cos/sin/tan` enter only as
  the values the code passes to the elementary constructors, so no trigonometric fact is assumed.
-/
import SvgVerif.Model.Transform
import Mathlib.Tactic.Ring
import Mathlib.Tactic.FieldSimp
import Mathlib.Tactic.LinearCombination
import Mathlib.Tactic.NormNum
import Mathlib.Algebra.Field.Basic

namespace Svg.C04
open Svg Svg.Mat

variable {K : Type} [Field K] [DecidableEq K]

/-! ### Specification: what a transform list denotes -/

/-- `E` carried out about the centre `(x, y)`: translate the centre to the origin, apply `E`,
    translate back (SVG 1.1 §7.6: `rotate(a, cx, cy)` ≡ `translate(cx,cy) rotate(a) translate(-cx,-cy)`;
    `mul m s` applies `m` first). -/
def about (x y : K) (E : Mat K) : Mat K :=
  mul (mul (translate (-x) (-y)) E) (translate x y)

/-- The SVG 1.1 §7.6 / CSS Transforms §13 matrix of one function with its optional arguments
    defaulted: `translate(tx)` ⇒ ty = 0, `scale(s)` ⇒ sy = s, `rotate(a, cx, cy)` about a centre,
    `skew(ax)` ⇒ ay = 0. Angles are given in radians (after `Angle.parse`). The library's extension
    of an optional centre for `scale`/`skew*` is specified the same way. `none`: the argument count is
    not one the grammar admits. -/
def specMat [Trig K] : TName → List K → Option (Mat K)
  | .matrix, [a, b, c, d, e, f] => some ⟨a, b, c, d, e, f⟩
  | .translate, [tx] => some (translate tx 0)
  | .translate, [tx, ty] => some (translate tx ty)
  | .translateX, [tx] => some (translate tx 0)
  | .translateY, [ty] => some (translate 0 ty)
  | .scale, [s] => some (scale s s)
  | .scale, [sx, sy] => some (scale sx sy)
  | .scale, [sx, sy, x] => some (about x 0 (scale sx sy))
  | .scale, [sx, sy, x, y] => some (about x y (scale sx sy))
  | .scaleX, [sx] => some (scale sx 1)
  | .scaleY, [sy] => some (scale 1 sy)
  | .rotate, [a] => some (rotateCS (Trig.cos a) (Trig.sin a))
  | .rotate, [a, cx] => some (about cx 0 (rotateCS (Trig.cos a) (Trig.sin a)))
  | .rotate, [a, cx, cy] => some (about cx cy (rotateCS (Trig.cos a) (Trig.sin a)))
  | .skew, [ax] => some (skewT (Trig.tan ax) (Trig.tan 0))
  | .skew, [ax, ay] => some (skewT (Trig.tan ax) (Trig.tan ay))
  | .skew, [ax, ay, x] => some (about x 0 (skewT (Trig.tan ax) (Trig.tan ay)))
  | .skew, [ax, ay, x, y] => some (about x y (skewT (Trig.tan ax) (Trig.tan ay)))
  | .skewX, [ax] => some (skewT (Trig.tan ax) (Trig.tan 0))
  | .skewX, [ax, x] => some (about x 0 (skewT (Trig.tan ax) (Trig.tan 0)))
  | .skewX, [ax, x, y] => some (about x y (skewT (Trig.tan ax) (Trig.tan 0)))
  | .skewY, [ay] => some (skewT (Trig.tan 0) (Trig.tan ay))
  | .skewY, [ay, x] => some (about x 0 (skewT (Trig.tan 0) (Trig.tan ay)))
  | .skewY, [ay, x, y] => some (about x y (skewT (Trig.tan 0) (Trig.tan ay)))
  | _, _ => none

/-- A transform list denotes the product of its functions, the right-most applied to a point
    first: `denote (f :: rest) p = f (denote rest p)`. -/
def denote [Trig K] : List (TName × List K) → Option (Mat K)
  | [] => some identity
  | (n, vs) :: rest => do
      let E ← specMat n vs
      let R ← denote rest
      some (mul R E)

/-! ### Matrix algebra -/

/-- Composition agrees with point application: `p * (A * B) = (p * A) * B`. -/
theorem C04_point_assoc (A B : Mat K) (p : Pt K) :
    apply (mul A B) p = apply B (apply A p) := by
  simp only [apply, mul, Pt.mk.injEq]
  constructor <;> ring

theorem C04_mul_assoc (A B C : Mat K) : mul (mul A B) C = mul A (mul B C) := by
  simp only [mul, Mat.mk.injEq]
  refine ⟨?_, ?_, ?_, ?_, ?_, ?_⟩ <;> ring

/-- The identity is neutral on both sides, and fixes every point. -/
theorem C04_identity_neutral (A : Mat K) (p : Pt K) :
    mul identity A = A ∧ mul A identity = A ∧ apply identity p = p := by
  cases A; cases p
  simp only [mul, identity, apply, Mat.mk.injEq, Pt.mk.injEq]
  refine ⟨⟨?_, ?_, ?_, ?_, ?_, ?_⟩, ⟨?_, ?_, ?_, ?_, ?_, ?_⟩, ?_, ?_⟩ <;> ring

/-- `~M` is a two-sided inverse of every non-singular `M`. -/
theorem C04_inverse (M : Mat K) (h : det M ≠ 0) :
    mul M (inverse M) = identity ∧ mul (inverse M) M = identity := by
  cases M with
  | mk a b c d e f =>
  simp only [det] at h
  obtain ⟨i, hi⟩ : ∃ i, (a * d - c * b) * i = 1 := ⟨(a * d - c * b)⁻¹, mul_inv_cancel₀ h⟩
  have h1 : 1 / (a * d - c * b) = i := by
    rw [div_eq_iff h]; linear_combination -hi
  simp only [mul, inverse, identity, Mat.mk.injEq, h1]
  refine ⟨⟨?_, ?_, ?_, ?_, ?_, ?_⟩, ⟨?_, ?_, ?_, ?_, ?_, ?_⟩⟩ <;>
    first
      | ring1
      | linear_combination hi
      | linear_combination (-e) * hi
      | linear_combination (-f) * hi
      | linear_combination e * hi
      | linear_combination f * hi

/-- Inverse undoes the map pointwise (corollary used by C20). -/
theorem C04_inverse_apply (M : Mat K) (h : det M ≠ 0) (p : Pt K) :
    apply (inverse M) (apply M p) = p := by
  rw [← C04_point_assoc, (C04_inverse M h).1]
  exact (C04_identity_neutral M p).2.2

/-- `det` is multiplicative (used by C14's stroke-width scaling). -/
theorem C04_det_mul (A B : Mat K) : det (mul A B) = det A * det B := by
  simp only [det, mul]; ring

/-! ### pre_/post_ operations are left / right multiplication by the elementary matrix -/

omit [DecidableEq K] in
theorem about_origin_linear (E : Mat K) (he : E.e = 0) (hf : E.f = 0) : about 0 0 E = E := by
  cases E
  simp only at he hf
  subst he hf
  simp only [about, mul, translate, Mat.mk.injEq]
  refine ⟨?_, ?_, ?_, ?_, ?_, ?_⟩ <;> ring

/-- `pre_scale`, `pre_rotate`, `pre_skew` with or without a centre: left multiplication
    (applied to a point *before* the existing matrix) by the elementary matrix about the centre. -/
theorem C04_pre (self : Mat K) (sx sy ct st aa bb x y : K) :
    preScale self sx sy x y = mul (about x y (scale sx sy)) self ∧
    preRotate self ct st x y = mul (about x y (rotateCS ct st)) self ∧
    preSkew self aa bb x y = mul (about x y (skewT aa bb)) self ∧
    preTranslate self x y = mul (translate x y) self := by
  refine ⟨?_, ?_, ?_, rfl⟩
  all_goals
    simp only [preScale, preRotate, preSkew]
    split
    · rename_i h
      simp only [Bool.and_eq_true, beq_iff_eq] at h
      obtain ⟨hx, hy⟩ := h
      subst hx hy
      simp only [preCat, about, mul, translate, scale, rotateCS, skewT, Mat.mk.injEq]
      refine ⟨?_, ?_, ?_, ?_, ?_, ?_⟩ <;> ring
    · simp only [preCat, preTranslate, about, mul, translate, scale, rotateCS, skewT, Mat.mk.injEq]
      refine ⟨?_, ?_, ?_, ?_, ?_, ?_⟩ <;> ring

/-- `post_scale`, `post_rotate`, `post_skew`: right multiplication (applied *after* the existing
    matrix) by the same elementary matrix. -/
theorem C04_post (self : Mat K) (sx sy ct st aa bb x y : K) :
    postScale self sx sy x y = mul self (about x y (scale sx sy)) ∧
    postRotate self ct st x y = mul self (about x y (rotateCS ct st)) ∧
    postSkew self aa bb x y = mul self (about x y (skewT aa bb)) ∧
    postTranslate self x y = mul self (translate x y) := by
  refine ⟨?_, ?_, ?_, rfl⟩
  all_goals
    simp only [postScale, postRotate, postSkew]
    split
    · rename_i h
      simp only [Bool.and_eq_true, beq_iff_eq] at h
      obtain ⟨hx, hy⟩ := h
      subst hx hy
      simp only [postCat, about, mul, translate, scale, rotateCS, skewT, Mat.mk.injEq]
      refine ⟨?_, ?_, ?_, ?_, ?_, ?_⟩ <;> ring
    · simp only [postCat, postTranslate, about, mul, translate, scale, rotateCS, skewT, identity,
        Mat.mk.injEq]
      refine ⟨?_, ?_, ?_, ?_, ?_, ?_⟩ <;> ring

/-! ### The parser denotes the product, right-most function first -/

variable [Trig K]

/-- One function: for every argument count the grammar admits, the modelled loop body multiplies
    the specified elementary matrix in *front* of the accumulated matrix. -/
theorem C04_applyVals_spec (self : Mat K) (n : TName) (vs : List K) (E : Mat K)
    (h : specMat n vs = some E) : applyVals self n vs = .ok (mul E self) := by
  have P := fun sx sy ct st aa bb x y => C04_pre self sx sy ct st aa bb x y
  cases n <;>
    (rcases vs with _ | ⟨v1, _ | ⟨v2, _ | ⟨v3, _ | ⟨v4, _ | ⟨v5, _ | ⟨v6, _ | ⟨v7, vs⟩⟩⟩⟩⟩⟩⟩ <;>
      simp only [specMat, reduceCtorEq, Option.some.injEq] at h <;>
      subst h <;>
      simp only [applyVals, rotOf, skewOf, Except.ok.injEq, preCat] <;>
      try (first
        | rfl
        | rw [(P _ _ 0 0 0 0 _ _).1]
        | rw [(P 0 0 _ _ 0 0 _ _).2.1]
        | rw [(P 0 0 0 0 _ _ _ _).2.2.1]
        | rw [(P 0 0 0 0 0 0 _ _).2.2.2]) <;>
      try (first
        | rfl
        | (congr 1; rw [about_origin_linear] <;> rfl)))

/-- **C04 main theorem.** For every list of transform functions (any length) with admissible
    argument counts, `Matrix.parse` returns the product the list denotes, the right-most function
    applied to a point first; concatenating a string in front of an already parsed one multiplies in
    front (the `self` parameter), which is what `SVG.parse` relies on when it concatenates the
    ancestors' transform strings. -/
theorem C04_parse_denotes (self : Mat K) (l : List (TName × List K)) (D : Mat K)
    (h : denote l = some D) : parseVals self l = .ok (mul D self) := by
  induction l generalizing self D with
  | nil =>
    simp only [denote, Option.some.injEq] at h
    subst h
    simp only [parseVals, List.foldlM_nil, (C04_identity_neutral self ⟨0, 0⟩).1]
    rfl
  | cons f rest ih =>
    obtain ⟨n, vs⟩ := f
    simp only [denote, Option.bind_eq_bind] at h
    cases hE : specMat n vs with
    | none => simp [hE] at h
    | some E =>
      cases hR : denote rest with
      | none => simp [hE, hR] at h
      | some R =>
        simp only [hE, hR, Option.bind_some, Option.some.injEq] at h
        subst h
        have h1 := C04_applyVals_spec self n vs E hE
        have h2 := ih (mul E self) R hR
        simp only [parseVals, List.foldlM_cons] at h2 ⊢
        rw [h1]
        simp only [bind, Except.bind]
        rw [h2, C04_mul_assoc]

/-- Concatenation of transform lists: parsing `l₁ ++ l₂` is parsing `l₂` on top of the result of
    `l₁` (the fold), so the matrix of `l₁ ++ l₂` is `denote l₂` applied first, then `denote l₁`. -/
theorem C04_parse_concat (self : Mat K) (l₁ l₂ : List (TName × List K)) (D₁ D₂ : Mat K)
    (h₁ : denote l₁ = some D₁) (h₂ : denote l₂ = some D₂) :
    parseVals self (l₁ ++ l₂) = .ok (mul D₂ (mul D₁ self)) := by
  simp only [parseVals, List.foldlM_append]
  have := C04_parse_denotes self l₁ D₁ h₁
  simp only [parseVals] at this
  rw [this]
  exact C04_parse_denotes (mul D₁ self) l₂ D₂ h₂

/-- Point form of the main theorem: the right-most function acts on the point first. -/
theorem C04_rightmost_first (n : TName) (vs : List K) (rest : List (TName × List K))
    (E R : Mat K) (hE : specMat n vs = some E) (hR : denote rest = some R) (p : Pt K) :
    ∃ M, parseVals identity ((n, vs) :: rest) = .ok M ∧ apply M p = apply E (apply R p) := by
  refine ⟨mul (mul R E) identity, ?_, ?_⟩
  · apply C04_parse_denotes
    simp [denote, hE, hR]
  · rw [(C04_identity_neutral _ p).2.1, C04_point_assoc]

/-- Functions without numeric arguments (and `matrix` with fewer than six) are skipped, never an
    error: this is the totality clause C10 relies on. -/
theorem C04_short_lists_skipped (v : NumLit → K) (self : Mat K) (n : TName) (ps : List TParam)
    (h : ps.length = 0 ∨ (n = .matrix ∧ ps.length < 6)) : applyFunc v self n ps = .ok self := by
  unfold applyFunc
  rw [if_pos h]

/-- Angle units: deg, grad, turn, % and unitless are the stated rational multiples of a turn. -/
theorem C04_angle_units (v : NumLit → K) (n : NumLit) :
    (TParam.asAngle v ⟨n, "deg"⟩ = .ok (Trig.tau * v n / ((360 : ℕ) : K))) ∧
    (TParam.asAngle v ⟨n, ""⟩ = .ok (Trig.tau * v n / ((360 : ℕ) : K))) ∧
    (TParam.asAngle v ⟨n, "grad"⟩ = .ok (Trig.tau * v n / ((400 : ℕ) : K))) ∧
    (TParam.asAngle v ⟨n, "turn"⟩ = .ok (Trig.tau * v n)) ∧
    (TParam.asAngle v ⟨n, "rad"⟩ = .ok (v n)) := by
  refine ⟨?_, ?_, ?_, ?_, ?_⟩ <;> simp [TParam.asAngle]

/-! ### Non-vacuity: the hypotheses are met by concrete, non-trivial inputs -/

section examples
instance : Trig ℚ := ⟨fun _ => 3/5, fun _ => 4/5, fun _ => 4/3, fun _ _ => 0, fun _ => 0, fun _ => 0, 0⟩

example : denote (K := ℚ) [(.translate, [1, 2]), (.rotate, [1, 3, 4]), (.skew, [1]), (.scale, [2])]
    ≠ none := by decide

example : det (⟨2, 1, 1, 1, 5, 7⟩ : Mat ℚ) ≠ 0 := by norm_num [det]
end examples

end Svg.C04
