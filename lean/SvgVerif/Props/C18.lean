/-
  Props/C18.lean — copies and derived objects share no mutable state with their source.

  Two parts.
  1. The frame theorem (general, any heap, any history length): if the cells reachable from `y` are
     allocated and none of them is reachable from `x`, then no sequence of mutations performed
     *through* `x` — each overwriting a cell `x` reaches (or owns, or a free cell) with an object
     whose references point into what `x` reaches or owns — changes the content of any cell `y`
     reaches, nor the set of cells `y` reaches. By symmetry the same holds with the roles swapped.
  2. The observed table: for every class × derivation of the library, the object graphs of source
     and result, extracted from the running code on every run (Generated/C18_Sharing.lean), have
     no mutable cell in common — decided by the kernel through a closure certificate whose
     soundness is proved here.
  Together: for the classes as they are now, no public mutation history on one side can be seen
  from the other, provided public mutators are `Allowed` steps (trusted base; exercised by the
  random histories of the harness).
-/
import SvgVerif.Spec.Heap
import Generated.C18_Sharing
namespace Svg.Heap

/-! ### 1. closure certificates are sound -/

theorem contains_of_all {c s : List Loc} {b : Loc} (h : s.all c.contains = true) (hb : b ∈ s) : b ∈ c := by
  have := List.all_eq_true.mp h b hb
  simpa using this

theorem reach_subset_closed (edges : List (Loc × List Loc)) (c : List Loc) (r : Loc)
    (hc : closed edges c = true) (hr : r ∈ c) : ∀ l, Reach edges r l → l ∈ c := by
  intro l hl
  induction hl with
  | root => exact hr
  | @step a b s _ hmem hb ih =>
    have := List.all_eq_true.mp hc (a, s) hmem
    simp only [Bool.or_eq_true, Bool.not_eq_true'] at this
    rcases this with h | h
    · have : c.contains a = true := by simpa using ih
      rw [this] at h; cases h
    · exact contains_of_all h hb

/-- **Certificate soundness.** A case that passes the decidable check has no mutable location
    reachable from both roots. -/
theorem C18_certificate_sound (k : Case) (hok : k.ok = true) :
    ∀ l ∈ k.mutable, ¬ (Reach k.edges k.x l ∧ Reach k.edges k.y l) := by
  unfold Case.ok at hok
  simp only [Bool.and_eq_true] at hok
  obtain ⟨⟨⟨⟨hx, hy⟩, hcx⟩, hcy⟩, hm⟩ := hok
  intro l hl ⟨h1, h2⟩
  have a := reach_subset_closed k.edges k.cx k.x hcx (by simpa using hx) l h1
  have b := reach_subset_closed k.edges k.cy k.y hcy (by simpa using hy) l h2
  have := List.all_eq_true.mp hm l hl
  simp only [Bool.not_eq_true', Bool.and_eq_false_iff] at this
  rcases this with h | h
  · have : k.cx.contains l = true := by simpa using a
    rw [this] at h; cases h
  · have : k.cy.contains l = true := by simpa using b
    rw [this] at h; cases h

/-- **The observed sharing table.** Every class × derivation of the library, as introspected on
    this run, passes the check (the table is regenerated from /repo's working tree, so this is
    re-decided against what the code does now). -/
theorem C18_observed_table : Generated.observed.all Case.ok = true := by decide +kernel

/-- … hence, for each of them, source and result share no mutable object. -/
theorem C18_observed_separation : ∀ k ∈ Generated.observed, ∀ l ∈ k.mutable,
    ¬ (Reach k.edges k.x l ∧ Reach k.edges k.y l) := by
  intro k hk
  exact C18_certificate_sound k (List.all_eq_true.mp C18_observed_table k hk)

/-- the table is not empty and not trivial: it has a case whose graphs both have mutable cells -/
example : Generated.observed.length > 50 := by decide +kernel

/-! ### 2. the frame theorem -/

/-- one mutation performed through the root `x`: cell `l` gets the object `o` -/
structure Step where
  l : Loc
  o : Obj

/-- What a mutation through `x` may do. `R` is everything `x` has been able to name so far (what
    it reached at the start, plus the cells it wrote since): the step overwrites a cell of `R` or
    takes a free cell, and the references it stores point into `R` or to the written cell. A real
    mutator can only name what it reaches *now*, which lies inside `R` (`Inv.cover`). -/
def Allowed (h : Heap) (R : Loc → Prop) (s : Step) : Prop :=
  (R s.l ∨ h s.l = none) ∧ ∀ b ∈ s.o.refs, R b ∨ b = s.l

def grow (R : Loc → Prop) (s : Step) : Loc → Prop := fun b => R b ∨ b = s.l

/-- a history of allowed mutations, of any length -/
inductive History : Heap → (Loc → Prop) → List Step → Heap → (Loc → Prop) → Prop
  | nil {h R} : History h R [] h R
  | cons {h R s rest hf Rf} : Allowed h R s → History (put h s.l s.o) (grow R s) rest hf Rf →
      History h R (s :: rest) hf Rf

/-- the invariant: `y`'s region (as it was at the start) is untouched and disjoint from `R`,
    which contains `x` and is closed under the references of the current heap -/
structure Inv (h0 h : Heap) (x y : Loc) (R : Loc → Prop) : Prop where
  same : ∀ l, HReach h0 y l → h l = h0 l
  sep : ∀ b, R b → ¬ HReach h0 y b
  rootIn : R x
  closedR : ∀ a, R a → ∀ o, h a = some o → ∀ b ∈ o.refs, R b
  allocR : ∀ a, R a → h a ≠ none

theorem Inv.cover {h0 h : Heap} {x y : Loc} {R : Loc → Prop} (inv : Inv h0 h x y R) :
    ∀ b, HReach h x b → R b := by
  intro b hb
  induction hb with
  | root => exact inv.rootIn
  | step _ hcell hmem ih => exact inv.closedR _ ih _ hcell _ hmem

theorem step_preserves (h0 h : Heap) (x y : Loc) (R : Loc → Prop) (s : Step)
    (halloc : ∀ l, HReach h0 y l → h0 l ≠ none)
    (inv : Inv h0 h x y R) (ha : Allowed h R s) :
    Inv h0 (put h s.l s.o) x y (grow R s) := by
  obtain ⟨hl, hrefs⟩ := ha
  have hlnot : ¬ HReach h0 y s.l := by
    rcases hl with h1 | h1
    · exact inv.sep _ h1
    · intro hy
      have := inv.same _ hy
      rw [h1] at this
      exact halloc _ hy this.symm
  refine ⟨?_, ?_, Or.inl inv.rootIn, ?_, ?_⟩
  · intro l hy
    unfold put
    by_cases hls : l = s.l
    · subst hls; exact absurd hy hlnot
    · simp only [hls, if_false]; exact inv.same l hy
  · intro b hb
    rcases hb with h1 | h1
    · exact inv.sep b h1
    · rw [h1]; exact hlnot
  · intro a ha o hcell b hmem
    unfold put at hcell
    by_cases hal : a = s.l
    · simp only [hal, if_true, Option.some.injEq] at hcell
      subst hcell
      exact hrefs b hmem
    · simp only [hal, if_false] at hcell
      rcases ha with h1 | h1
      · exact Or.inl (inv.closedR a h1 o hcell b hmem)
      · exact absurd h1 hal
  · intro a ha
    unfold put
    by_cases hal : a = s.l
    · simp [hal]
    · simp only [hal, if_false]
      rcases ha with h1 | h1
      · exact inv.allocR a h1
      · exact absurd h1 hal

theorem history_preserves (h0 : Heap) (x y : Loc) (halloc : ∀ l, HReach h0 y l → h0 l ≠ none)
    {h : Heap} {R : Loc → Prop} {ops : List Step} {hf : Heap} {Rf : Loc → Prop}
    (hist : History h R ops hf Rf) (inv : Inv h0 h x y R) : Inv h0 hf x y Rf := by
  induction hist with
  | nil => exact inv
  | cons ha _ ih => exact ih (step_preserves h0 _ x y _ _ halloc inv ha)

theorem reach_same (h0 h : Heap) (y : Loc) (same : ∀ l, HReach h0 y l → h l = h0 l) :
    ∀ l, HReach h y l ↔ HReach h0 y l := by
  intro l
  constructor
  · intro hl
    induction hl with
    | root => exact HReach.root
    | step _ hcell hmem ih => exact HReach.step ih (by rw [← same _ ih]; exact hcell) hmem
  · intro hl
    induction hl with
    | root => exact HReach.root
    | step hprev hcell hmem ih => exact HReach.step ih (by rw [same _ hprev]; exact hcell) hmem

/-- **Frame theorem (non-interference for every history).** Let the cells `y` reaches be allocated
    and let `x` reach none of them. Then after ANY sequence of allowed mutations through `x`, of
    any length: every cell `y` reaches holds exactly what it held, `y` reaches exactly the same
    cells (so its whole value, to any depth, is unchanged), and `x` still reaches none of them
    (so the same holds for whatever happens next, and — exchanging the roles of `x` and `y` —
    for mutations through `y`). -/
theorem C18_frame (h0 : Heap) (x y : Loc) (ops : List Step) (hf : Heap) (Rf : Loc → Prop)
    (halloc : ∀ l, HReach h0 y l → h0 l ≠ none)
    (hallocx : ∀ l, HReach h0 x l → h0 l ≠ none)
    (hsep : ∀ b, HReach h0 x b → ¬ HReach h0 y b)
    (hist : History h0 (HReach h0 x) ops hf Rf) :
    (∀ l, HReach h0 y l → hf l = h0 l) ∧
    (∀ l, HReach hf y l ↔ HReach h0 y l) ∧
    (∀ b, HReach hf x b → ¬ HReach hf y b) ∧
    (∀ b, HReach hf x b → hf b ≠ none) ∧ (∀ b, HReach hf y b → hf b ≠ none) := by
  have inv0 : Inv h0 h0 x y (HReach h0 x) :=
    ⟨fun _ _ => rfl, hsep, HReach.root, fun a ha o hc b hb => HReach.step ha hc hb, hallocx⟩
  have inv := history_preserves h0 x y halloc hist inv0
  have hre := reach_same h0 hf y inv.same
  refine ⟨inv.same, hre, ?_, ?_, ?_⟩
  · intro b hb hy
    exact inv.sep b (inv.cover b hb) ((hre b).mp hy)
  · intro b hb
    exact inv.allocR b (inv.cover b hb)
  · intro b hb
    have h0b := (hre b).mp hb
    rw [inv.same b h0b]
    exact halloc b h0b

/-- **The frame composes.** What `C18_frame` concludes about the final heap is exactly what it
    assumes about the initial one, with `x` and `y` exchanged: both regions allocated and
    disjoint. So it applies again to a history of mutations through `y`, then through `x`
    again, and so on: in any alternation of mutation rounds on either side, a round never
    changes a cell the other side reaches. -/
theorem C18_frame_composes (h0 : Heap) (x y : Loc) (ops : List Step) (hf : Heap) (Rf : Loc → Prop)
    (halloc : ∀ l, HReach h0 y l → h0 l ≠ none)
    (hallocx : ∀ l, HReach h0 x l → h0 l ≠ none)
    (hsep : ∀ b, HReach h0 x b → ¬ HReach h0 y b)
    (hist : History h0 (HReach h0 x) ops hf (Rf)) :
    (∀ l, HReach hf x l → hf l ≠ none) ∧ (∀ l, HReach hf y l → hf l ≠ none) ∧
    (∀ b, HReach hf y b → ¬ HReach hf x b) := by
  obtain ⟨_, _, h3, h4, h5⟩ := C18_frame h0 x y ops hf Rf halloc hallocx hsep hist
  exact ⟨h4, h5, fun b hy hx => h3 b hx hy⟩

/-- non-vacuity: a two-object source `x = 0 → 1`, an independent copy `y = 2 → 3`; `x` rewrites its
    child and allocates a new one — the hypotheses hold and the history is allowed -/
def demoHeap : Heap := fun a =>
  if a = 0 then some ⟨[7], [1]⟩ else if a = 1 then some ⟨[8], []⟩
  else if a = 2 then some ⟨[7], [3]⟩ else if a = 3 then some ⟨[8], []⟩ else none

example : Allowed demoHeap (HReach demoHeap 0) ⟨1, ⟨[9], []⟩⟩ :=
  ⟨Or.inl (HReach.step HReach.root (by simp [demoHeap] : demoHeap 0 = some ⟨[7], [1]⟩) (by simp)), by simp⟩

example : Allowed demoHeap (HReach demoHeap 0) ⟨5, ⟨[1], [0, 5]⟩⟩ :=
  ⟨Or.inr (by simp [demoHeap]), by
    intro b hb
    simp at hb
    rcases hb with h | h
    · subst h; exact Or.inl HReach.root
    · exact Or.inr h⟩

end Svg.Heap
