/-
  Props/C03.lean — parsed documents give each shape its spec-defined absolute geometry.

  Property theorems only (helper lemmas: Proofs/DocLoop.lean). Model: Model/Doc.lean (event
  stream with `use` inlined + the loop with its explicit stack and loop-global width/height),
  Model/DocShape.lean (shape constructors). Specification: Spec/DocSpec.lean (recursive
  renderer with lexical scopes).
-/
import SvgVerif.Proofs.DocLoop
import SvgVerif.Model.DocShape
import SvgVerif.Props.C04
import SvgVerif.Model.Reify
namespace Svg.Doc
set_option linter.unusedSectionVars false

section
variable {K : Type} [Add K] [Sub K] [Mul K] [Div K] [Neg K] [Zero K] [One K] [BEq K]
  [LT K] [DecidableLT K] [LE K] [DecidableLE K] [NatCast K]

/-! ### 1. the loop is the recursive renderer — for every document -/

/-- **Main refinement.** For every forest of element trees (any depth, any number of `use`
    references, nested or cyclic), every configuration and every initial scope, the event loop
    with its explicit `(context, values, width, height)` stack renders exactly the shapes, in
    exactly the order, of the recursive specification in which each element's scope is lexical:
    `parseDoc = specDoc`. -/
theorem C03_loop_refines_tree (cfg : Cfg K) (f : Frame K) (roots : List Xml) :
    parseDoc cfg f roots = specDoc cfg f roots := by
  unfold parseDoc specDoc events
  have h := run_semiList cfg (idTable roots) ((idTable roots).length + 1) [] roots (initSt f) rfl
  obtain ⟨ho, hst, _⟩ := h
  simp only []
  rw [hst, ho]
  rfl

/-- **Scope restoration.** Whatever a subtree contains — nested svg elements that change the
    viewport size, groups, `use` expansions, hidden subtrees — once its events are consumed the
    loop is back in the scope it had before: same stack, same context, same inherited values
    (so no attribute of the subtree leaks to a following sibling), same width and height. -/
theorem C03_subtree_restores_scope (cfg : Cfg K) (defs : List (String × Xml)) (fuel : Nat)
    (active : List String) (x : Xml) (s : St K) (hs : s.status = .running)
    (hrun : (run cfg s (semi defs fuel active x)).status = .running) :
    (run cfg s (semi defs fuel active x)).stack = s.stack ∧
    (run cfg s (semi defs fuel active x)).cur = s.cur := by
  obtain ⟨_, hst, hk⟩ := run_semi cfg defs fuel active x s hs
  have := hk (by rw [← hst]; exact hrun)
  exact ⟨this.1, this.2.1⟩

/-- **Document order.** The shapes of a list of siblings are the shapes of the first sibling
    followed by those of the rest, and every sibling is rendered in the same scope `f` — the
    scope of the parent — whatever its elder siblings were (only the rule table is threaded). -/
theorem C03_document_order (cfg : Cfg K) (defs : List (String × Xml)) (fuel : Nat) (active : List String)
    (styles : Dict) (f : Frame K) (k : Xml) (ks : List Xml)
    (h : (specNode cfg defs fuel active styles f k).status = .running) :
    (specList cfg defs fuel active styles f (k :: ks)).out =
      (specNode cfg defs fuel active styles f k).out ++
      (specList cfg defs fuel active (specNode cfg defs fuel active styles f k).styles f ks).out := by
  rw [specList]
  simp only [h]

/-! ### 2. dictionaries -/

theorem Dict.get_erase_self (d : Dict) (k : String) : Dict.get (Dict.erase d k) k = none := by
  induction d with
  | nil => rfl
  | cons p r ih =>
    obtain ⟨k', v⟩ := p
    unfold Dict.erase
    by_cases h : k' = k
    · simp only [h, if_true]; exact ih
    · simp only [h, if_false, Dict.get]; exact ih

theorem Dict.get_erase_ne (d : Dict) (k k' : String) (h : k' ≠ k) :
    Dict.get (Dict.erase d k) k' = Dict.get d k' := by
  induction d with
  | nil => rfl
  | cons p r ih =>
    obtain ⟨k0, v⟩ := p
    unfold Dict.erase
    by_cases h0 : k0 = k
    · subst h0
      have : k0 ≠ k' := fun e => h e.symm
      simp only [if_true, Dict.get, this, if_false]; exact ih
    · simp only [h0, if_false, Dict.get]
      by_cases h1 : k0 = k'
      · simp only [h1, if_true]
      · simp only [h1, if_false]; exact ih

theorem Dict.eraseAll_keeps_none (ks : List String) (d : Dict) (k : String) (h0 : Dict.get d k = none) :
    Dict.get (ks.foldl Dict.erase d) k = none := by
  induction ks generalizing d with
  | nil => exact h0
  | cons b r ih =>
    simp only [List.foldl_cons]
    apply ih
    by_cases hb : k = b
    · subst hb; exact Dict.get_erase_self _ _
    · rw [Dict.get_erase_ne _ _ _ hb]; exact h0

theorem Dict.get_eraseAll (ks : List String) (d : Dict) (k : String) (h : k ∈ ks) :
    Dict.get (ks.foldl Dict.erase d) k = none := by
  induction ks generalizing d with
  | nil => cases h
  | cons a r ih =>
    simp only [List.foldl_cons]
    by_cases ha : k = a
    · subst ha
      exact Dict.eraseAll_keeps_none r _ k (Dict.get_erase_self _ _)
    · exact ih _ (by cases h with | head => exact absurd rfl ha | tail _ h => exact h)

/-! ### 3. the accumulated transform: every element extends its parent's, on the right -/

/-- the pieces of `values["transform"]` -/
def pieces (v : Vals K) : List (TfPiece K) := v.tf.getD []

/-- `b` carries the transform of `a` followed by more functions -/
def Extends (a b : Vals K) : Prop := ∃ own, pieces b = pieces a ++ own

theorem Extends.refl (a : Vals K) : Extends a a := ⟨[], by simp⟩

theorem Extends.trans {a b c : Vals K} (h1 : Extends a b) (h2 : Extends b c) : Extends a c := by
  obtain ⟨o1, e1⟩ := h1
  obtain ⟨o2, e2⟩ := h2
  exact ⟨o1 ++ o2, by rw [e2, e1, List.append_assoc]⟩

theorem svgEnter_extends (cfg : Cfg K) (n : Bool) (vals v : Vals K) (w h w' h' : Dim K)
    (e : svgEnter cfg n vals w h = .ok v w' h') : Extends vals v := by
  unfold svgEnter at e
  simp only [] at e
  repeat' split at e
  all_goals first
    | (cases e; done)
    | (injection e with e1 _ _; subst e1; first
        | exact ⟨[], (List.append_nil _).symm⟩
        | exact ⟨_, rfl⟩)

theorem useEnter_extends (cfg : Cfg K) (vals v : Vals K) (e : useEnter cfg vals = .ok v) : Extends vals v := by
  unfold useEnter at e
  simp only [] at e
  repeat' split at e
  all_goals first
    | (cases e; done)
    | (injection e with e1; subst e1; first
        | exact ⟨[], (List.append_nil _).symm⟩
        | exact ⟨_, rfl⟩)

theorem compileVals_extends (cfg : Cfg K) (styles : Dict) (f : Frame K) (tag : String) (attrs : List (String × String)) :
    Extends f.vals (compileVals cfg styles f tag attrs) := by
  unfold compileVals ownTf
  simp only []
  generalize validAttrs cfg (compileAttrs styles f.vals.d tag attrs) = a
  cases Dict.get a "transform" with
  | some t => exact ⟨_, rfl⟩
  | none => exact ⟨[], (List.append_nil _).symm⟩

theorem dispatch_extends (cfg : Cfg K) (f : Frame K) (vals : Vals K) (tag : String) :
    Extends vals (dispatch cfg f vals tag).1.vals ∧
    ∀ r ∈ (dispatch cfg f vals tag).2.1, r.vals = vals := by
  unfold dispatch
  repeat' split
  all_goals first
    | exact ⟨Extends.refl _, by simp⟩
    | (rename_i e; exact ⟨svgEnter_extends _ _ _ _ _ _ _ _ e, by simp⟩)
    | (rename_i e; exact ⟨useEnter_extends _ _ _ e, by simp⟩)

/-- **One element.** Whatever the element is — group, svg with or without viewBox, `use` with
    x/y, shape — the scope it establishes and every shape it emits carry the parent's accumulated
    transform as a prefix: the element only ever appends (its own `transform`, then the viewport
    transform of an svg, or the translate of a `use`). -/
theorem C03_element_extends_transform (cfg : Cfg K) (styles : Dict) (f : Frame K) (tag : String)
    (attrs : List (String × String)) :
    Extends f.vals (enter cfg styles f tag attrs).1.vals ∧
    ∀ r ∈ (enter cfg styles f tag attrs).2.1, Extends f.vals r.vals := by
  unfold enter
  split
  · exact ⟨Extends.refl _, by simp⟩
  · have h1 := compileVals_extends cfg styles f tag attrs
    have h2 := dispatch_extends cfg f (compileVals cfg styles f tag attrs) tag
    exact ⟨h1.trans h2.1, fun r hr => by rw [h2.2 r hr]; exact h1⟩

mutual
/-- **Every descendant, any depth, through any `use`.** Each shape rendered below an element
    carries that element's scope transform as a prefix of its own. -/
theorem C03_descendants_extend_transform (cfg : Cfg K) (defs : List (String × Xml)) (fuel : Nat)
    (active : List String) (styles : Dict) (f : Frame K) (x : Xml) :
    ∀ r ∈ (specNode cfg defs fuel active styles f x).out, Extends f.vals r.vals := by
  match x with
  | .node tag attrs text kids =>
    have he := C03_element_extends_transform cfg styles f tag attrs
    rw [specNode]
    rcases hen : enter cfg styles f tag attrs with ⟨f', outs, st⟩
    rw [hen] at he
    simp only [] at he ⊢
    have ih1 := specList_extend cfg defs fuel active styles f' kids
    cases st with
    | returned => simpa using he.2
    | raised e => simpa using he.2
    | running =>
      simp only []
      generalize specList cfg defs fuel active styles f' kids = r1 at ih1 ⊢
      have h1 : ∀ r ∈ outs ++ r1.out, Extends f.vals r.vals := by
        intro r hr
        rcases List.mem_append.mp hr with h | h
        · exact he.2 r h
        · exact he.1.trans (ih1 r h)
      cases hr1 : r1.status with
      | returned => simpa using h1
      | raised e => simpa using h1
      | running =>
        simp only []
        have h2 : ∀ (r2 : Res K), (∀ r ∈ r2.out, Extends f'.vals r.vals) →
            ∀ r ∈ outs ++ r1.out ++ r2.out, Extends f.vals r.vals := by
          intro r2 h r hr
          rcases List.mem_append.mp hr with h' | h'
          · exact h1 r h'
          · exact he.1.trans (h r h')
        cases useTarget defs active tag attrs with
        | none =>
          simp only []
          exact h2 ⟨[], r1.styles, .running⟩ (by simp)
        | some it =>
          obtain ⟨i, target⟩ := it
          simp only []
          cases fuel with
          | zero =>
            simp only []
            exact h2 ⟨[], r1.styles, .raised .recursion⟩ (by simp)
          | succ n =>
            simp only []
            have ih2 := C03_descendants_extend_transform cfg defs n (active ++ [i]) r1.styles f' target
            generalize specNode cfg defs n (active ++ [i]) r1.styles f' target = r2 at ih2 ⊢
            cases r2.status <;> simp only [] <;> exact h2 r2 ih2
termination_by (fuel, sizeOf x)

theorem specList_extend (cfg : Cfg K) (defs : List (String × Xml)) (fuel : Nat)
    (active : List String) (styles : Dict) (f : Frame K) (l : List Xml) :
    ∀ r ∈ (specList cfg defs fuel active styles f l).out, Extends f.vals r.vals := by
  match l with
  | [] => rw [specList]; simp
  | k :: ks =>
    rw [specList]
    have ih1 := C03_descendants_extend_transform cfg defs fuel active styles f k
    generalize specNode cfg defs fuel active styles f k = r1 at ih1 ⊢
    simp only []
    cases r1.status with
    | returned => simpa using ih1
    | raised e => simpa using ih1
    | running =>
      simp only []
      have ih2 := specList_extend cfg defs fuel active r1.styles f ks
      intro r hr
      rcases List.mem_append.mp hr with h | h
      · exact ih1 r h
      · exact ih2 r h
termination_by (fuel, sizeOf l)
end


/-! ### 5. what is not rendered, and what is not inherited -/

theorem enter_hidden (cfg : Cfg K) (styles : Dict) (f : Frame K) (tag : String) (attrs : List (String × String))
    (h : displayNone f.vals.d = true) : enter cfg styles f tag attrs = (f, [], .running) := by
  unfold enter; simp [h]

mutual
/-- **display:none.** Below an element whose computed `display` is `none` nothing is rendered —
    at any depth, `use` targets included. -/
theorem C03_hidden_subtree_renders_nothing (cfg : Cfg K) (defs : List (String × Xml)) (fuel : Nat)
    (active : List String) (styles : Dict) (f : Frame K) (x : Xml) (h : displayNone f.vals.d = true) :
    (specNode cfg defs fuel active styles f x).out = [] := by
  match x with
  | .node tag attrs text kids =>
    rw [specNode, enter_hidden cfg styles f tag attrs h]
    simp only []
    have ih1 := hidden_list cfg defs fuel active styles f kids h
    generalize specList cfg defs fuel active styles f kids = r1 at ih1 ⊢
    cases r1.status with
    | returned => simpa using ih1
    | raised e => simpa using ih1
    | running =>
      simp only []
      cases useTarget defs active tag attrs with
      | none => simp [ih1]
      | some it =>
        obtain ⟨i, target⟩ := it
        simp only []
        cases fuel with
        | zero => simp [ih1]
        | succ n =>
          simp only []
          have ih2 := C03_hidden_subtree_renders_nothing cfg defs n (active ++ [i]) r1.styles f target h
          generalize specNode cfg defs n (active ++ [i]) r1.styles f target = r2 at ih2 ⊢
          cases r2.status <;> simp [ih1, ih2]
termination_by (fuel, sizeOf x)

theorem hidden_list (cfg : Cfg K) (defs : List (String × Xml)) (fuel : Nat)
    (active : List String) (styles : Dict) (f : Frame K) (l : List Xml) (h : displayNone f.vals.d = true) :
    (specList cfg defs fuel active styles f l).out = [] := by
  match l with
  | [] => rw [specList]
  | k :: ks =>
    rw [specList]
    have ih1 := C03_hidden_subtree_renders_nothing cfg defs fuel active styles f k h
    generalize specNode cfg defs fuel active styles f k = r1 at ih1 ⊢
    simp only []
    cases r1.status with
    | returned => simpa using ih1
    | raised e => simpa using ih1
    | running =>
      simp only []
      have ih2 := hidden_list cfg defs fuel active r1.styles f ks h
      simp [ih1, ih2]
termination_by (fuel, sizeOf l)
end

theorem dispatch_detached (cfg : Cfg K) (f : Frame K) (vals : Vals K) (tag : String) (h : f.ctx = .obj false) :
    (dispatch cfg f vals tag).1.ctx = .obj false ∧ ∀ r ∈ (dispatch cfg f vals tag).2.1, r.attached = false := by
  unfold dispatch
  repeat' split
  all_goals first
    | (simp [h, childCtx]; done)
    | (simp [h, childCtx]; rfl)

theorem enter_detached (cfg : Cfg K) (styles : Dict) (f : Frame K) (tag : String) (attrs : List (String × String))
    (h : f.ctx = .obj false) :
    (enter cfg styles f tag attrs).1.ctx = .obj false ∧ ∀ r ∈ (enter cfg styles f tag attrs).2.1, r.attached = false := by
  unfold enter
  split
  · simp [h]
  · exact dispatch_detached cfg f _ tag h

mutual
/-- **defs.** Everything constructed below a `defs` (or `clipPath`, `pattern`) element hangs off a
    container that is not part of the returned tree: no such shape is rendered, however deep, and
    a `use` *inside* the definitions does not change that. -/
theorem C03_definitions_not_rendered (cfg : Cfg K) (defs : List (String × Xml)) (fuel : Nat)
    (active : List String) (styles : Dict) (f : Frame K) (x : Xml) (h : f.ctx = .obj false) :
    ∀ r ∈ (specNode cfg defs fuel active styles f x).out, r.attached = false := by
  match x with
  | .node tag attrs text kids =>
    have he := enter_detached cfg styles f tag attrs h
    rw [specNode]
    rcases hen : enter cfg styles f tag attrs with ⟨f', outs, st⟩
    rw [hen] at he
    simp only [] at he ⊢
    have ih1 := detached_list cfg defs fuel active styles f' kids he.1
    cases st with
    | returned => simpa using he.2
    | raised e => simpa using he.2
    | running =>
      simp only []
      generalize specList cfg defs fuel active styles f' kids = r1 at ih1 ⊢
      have h1 : ∀ r ∈ outs ++ r1.out, r.attached = false := by
        intro r hr
        rcases List.mem_append.mp hr with h' | h'
        · exact he.2 r h'
        · exact ih1 r h'
      cases r1.status with
      | returned => simpa using h1
      | raised e => simpa using h1
      | running =>
        simp only []
        have h2 : ∀ (r2 : Res K), (∀ r ∈ r2.out, r.attached = false) →
            ∀ r ∈ outs ++ r1.out ++ r2.out, r.attached = false := by
          intro r2 hh r hr
          rcases List.mem_append.mp hr with h' | h'
          · exact h1 r h'
          · exact hh r h'
        cases useTarget defs active tag attrs with
        | none => simp only []; exact h2 ⟨[], r1.styles, .running⟩ (by simp)
        | some it =>
          obtain ⟨i, target⟩ := it
          simp only []
          cases fuel with
          | zero => simp only []; exact h2 ⟨[], r1.styles, .raised .recursion⟩ (by simp)
          | succ n =>
            simp only []
            have ih2 := C03_definitions_not_rendered cfg defs n (active ++ [i]) r1.styles f' target he.1
            generalize specNode cfg defs n (active ++ [i]) r1.styles f' target = r2 at ih2 ⊢
            cases r2.status <;> simp only [] <;> exact h2 r2 ih2
termination_by (fuel, sizeOf x)

theorem detached_list (cfg : Cfg K) (defs : List (String × Xml)) (fuel : Nat)
    (active : List String) (styles : Dict) (f : Frame K) (l : List Xml) (h : f.ctx = .obj false) :
    ∀ r ∈ (specList cfg defs fuel active styles f l).out, r.attached = false := by
  match l with
  | [] => rw [specList]; simp
  | k :: ks =>
    rw [specList]
    have ih1 := C03_definitions_not_rendered cfg defs fuel active styles f k h
    generalize specNode cfg defs fuel active styles f k = r1 at ih1 ⊢
    simp only []
    cases r1.status with
    | returned => simpa using ih1
    | raised e => simpa using ih1
    | running =>
      simp only []
      have ih2 := detached_list cfg defs fuel active r1.styles f ks h
      intro r hr
      rcases List.mem_append.mp hr with h' | h'
      · exact ih1 r h'
      · exact ih2 r h'
termination_by (fuel, sizeOf l)
end

/-- **Nearest viewport.** A shape is rendered against the width and height of the scope it is
    entered in — which, by scope restoration, is the one established by its nearest enclosing svg
    (its viewBox size when it has one), not by whatever svg happened to be parsed last. -/
theorem C03_shape_uses_scope_viewport (cfg : Cfg K) (f : Frame K) (vals : Vals K) (tag : String) :
    ∀ r ∈ (dispatch cfg f vals tag).2.1, r.w = f.w ∧ r.h = f.h := by
  unfold dispatch
  repeat' split
  all_goals simp

/-- **The viewport piece is the §8.2 transform, and the viewBox becomes the viewport.** For an svg
    element whose viewBox has its four numbers `vx vy vw vh` (vw, vh ≠ 0) and whose x, y, width,
    height resolve to the numbers `ex ey ew eh` (ew, eh ≠ 0): the scope it establishes carries the
    parent's transform followed by exactly one generated piece, the matrix
    `viewboxMatrix (ex ey ew eh) (vx vy vw vh) preserveAspectRatio` (which C11 proves to be the SVG 2
    §8.2 equivalent transform), and its content is rendered against a viewport of `vw × vh`. -/
theorem C03_viewport_piece (cfg : Cfg K) (n : Bool) (vals : Vals K) (w h : Dim K) (vb : VBox K)
    (vx vy vw vh ex ey ew eh : K)
    (hvb : (Dict.get vals.d "viewBox").map (parseViewbox cfg) = some vb)
    (h1 : vb.x = some vx) (h2 : vb.y = some vy) (h3 : vb.w = some vw) (h4 : vb.h = some vh)
    (hw : w ≠ none) (hh : h ≠ none)
    (hsx : lenOf cfg vals.d "x" ⟨0, .none_⟩ w (some (vw, vh)) = .num ex)
    (hsy : lenOf cfg vals.d "y" ⟨0, .none_⟩ h (some (vw, vh)) = .num ey)
    (hsw : lenOf cfg vals.d "width" ⟨((100 : Nat) : K), .pct⟩ w (some (vw, vh)) = .num ew)
    (hsh : lenOf cfg vals.d "height" ⟨((100 : Nat) : K), .pct⟩ h (some (vw, vh)) = .num eh)
    (hew : (ew == 0) = false) (heh : (eh == 0) = false) (hvw : (vw == 0) = false) (hvh : (vh == 0) = false) :
    ∃ v, svgEnter cfg n vals w h = .ok v (some (.num vw)) (some (.num vh)) ∧
      pieces v = pieces vals ++ [TfPiece.mat (viewboxMatrix ⟨ex, ey, ew, eh⟩ ⟨vx, vy, vw, vh⟩
        (Aspect.ofAttr ((Dict.get vals.d "preserveAspectRatio").map String.toList)))] := by
  obtain ⟨w0, rfl⟩ := Option.ne_none_iff_exists'.mp hw
  obtain ⟨h0, rfl⟩ := Option.ne_none_iff_exists'.mp hh
  refine ⟨{ d := ["x", "y", "width", "height"].foldl Dict.erase vals.d,
            tf := some ((vals.tf.getD []) ++ [TfPiece.mat (viewboxMatrix ⟨ex, ey, ew, eh⟩ ⟨vx, vy, vw, vh⟩
              (Aspect.ofAttr ((Dict.get vals.d "preserveAspectRatio").map String.toList)))]),
            vt := some ((vals.tf.getD []) ++ [TfPiece.mat (viewboxMatrix ⟨ex, ey, ew, eh⟩ ⟨vx, vy, vw, vh⟩
              (Aspect.ofAttr ((Dict.get vals.d "preserveAspectRatio").map String.toList)))]) }, ?_, ?_⟩
  · unfold svgEnter
    simp only [hvb, h1, h2, h3, h4, Option.isSome_some, Bool.and_self, if_true, hsx, hsy, hsw, hsh, dimIsZero,
      hew, heh, hvw, hvh, Bool.or_self, Bool.false_eq_true, if_false]
  · simp [pieces]

/-- **svg geometry is not inherited.** The scope an `svg` element establishes has no
    `x`, `y`, `width` or `height`: a descendant that omits one of them gets its own default, not
    the svg's value (the defect repaired by 19b07e0). -/
theorem C03_svg_geometry_not_inherited (cfg : Cfg K) (n : Bool) (vals v : Vals K) (w h w' h' : Dim K)
    (e : svgEnter cfg n vals w h = .ok v w' h') (k : String) (hk : k ∈ ["x", "y", "width", "height"]) :
    Dict.get v.d k = none := by
  unfold svgEnter at e
  simp only [] at e
  repeat' split at e
  all_goals first
    | (cases e; done)
    | (injection e with e1 _ _; subst e1; exact Dict.get_eraseAll _ _ _ hk)

/-- **use geometry is not inherited** either: its x/y act once, as the trailing translate. -/
theorem C03_use_geometry_not_inherited (cfg : Cfg K) (vals v : Vals K)
    (e : useEnter cfg vals = .ok v) (k : String) (hk : k ∈ ["x", "y", "width", "height"]) :
    Dict.get v.d k = none := by
  unfold useEnter at e
  simp only [] at e
  repeat' split at e
  all_goals first
    | (cases e; done)
    | (injection e with e1; subst e1; exact Dict.get_eraseAll _ _ _ hk)

end

/-! ### 4. from accumulated pieces to the CTM: the product, in document order -/
section Matrix
variable {K : Type} [Field K] [LinearOrder K] [Trig K]
open Svg.Mat Svg.C04

/-- one piece parsed onto the running matrix (the body of `tfMatrix`'s fold) -/
def stepPiece (cfg : Cfg K) (m : Mat K) (p : TfPiece K) : Py (Mat K) :=
  match p with
  | .text s => parseTokens cfg.num m (lexTransform s.toList)
  | .mat q => pure (Mat.preCat m q)

/-- the piece stands for the matrix `D`: parsed onto any running matrix `m` it yields `D` first,
    then `m` (`mul D m`). Generated pieces do so by construction (`mat_denotes`); attribute text
    does when its function list denotes `D` (C04_parse_denotes). -/
def PieceDenotes (cfg : Cfg K) (p : TfPiece K) (D : Mat K) : Prop :=
  ∀ m, stepPiece cfg m p = .ok (mul D m)

theorem mat_denotes (cfg : Cfg K) (D : Mat K) : PieceDenotes cfg (.mat D) D := fun _ => rfl

/-- the matrix of a chain of pieces: the later piece is applied to a point first -/
def chainMat : List (Mat K) → Mat K
  | [] => identity
  | D :: r => mul (chainMat r) D

theorem tfMatrix_append (cfg : Cfg K) (p q : List (TfPiece K)) :
    tfMatrix cfg (p ++ q) = (tfMatrix cfg p) >>= fun m => q.foldlM (stepPiece cfg) m := by
  unfold tfMatrix
  rw [List.foldlM_append]
  rfl

theorem fold_denoting (cfg : Cfg K) (ps : List (TfPiece K)) (Ds : List (Mat K))
    (h : List.Forall₂ (PieceDenotes cfg) ps Ds) (m : Mat K) :
    ps.foldlM (stepPiece cfg) m = .ok (mul (chainMat Ds) m) := by
  induction h generalizing m with
  | nil =>
    simp only [List.foldlM_nil, chainMat]
    have := (C04_identity_neutral m ⟨0, 0⟩).1
    congr 1
    cases m; simp [mul, identity]
  | @cons p D ps Ds hd _ ih =>
    simp only [List.foldlM_cons]
    rw [hd m]
    simp only [bind, Except.bind]
    rw [ih (mul D m), chainMat, C04_mul_assoc]

/-- **The CTM is the product in document order.** If the ancestors' accumulated pieces parse to
    `A` and the element's own pieces denote `D₁ … Dₙ` (own transform, then viewport transform or
    `use` translate), the element's matrix is `A` after the chain of its own: a point of the
    element's user space goes through `Dₙ` first, …, `D₁` next, and the ancestors' `A` last. -/
theorem C03_ctm_is_product (cfg : Cfg K) (anc own : List (TfPiece K)) (A : Mat K) (Ds : List (Mat K))
    (hA : tfMatrix cfg anc = .ok A) (h : List.Forall₂ (PieceDenotes cfg) own Ds) :
    tfMatrix cfg (anc ++ own) = .ok (mul (chainMat Ds) A) ∧
    ∀ p, apply (mul (chainMat Ds) A) p = apply A (apply (chainMat Ds) p) := by
  refine ⟨?_, fun p => ?_⟩
  · rw [tfMatrix_append, hA]
    exact fold_denoting cfg own Ds h A
  · exact (C04_point_assoc _ _ p)

/-- the converted functions of a token list: a function the parser skips (no numeric argument;
    `matrix` with fewer than six) contributes nothing -/
def tokVals (v : NumLit → K) : List (TName × List TParam) → Py (List (TName × List K))
  | [] => .ok []
  | (n, ps) :: rest =>
    if ps.length = 0 ∨ (n = .matrix ∧ ps.length < 6) then tokVals v rest
    else do
      let vals ← convertParams v n ps
      let r ← tokVals v rest
      pure ((n, vals) :: r)

theorem parseTokens_tokVals (v : NumLit → K) (m : Mat K) (toks : List (TName × List TParam))
    (vals : List (TName × List K)) (h : tokVals v toks = .ok vals) :
    parseTokens v m toks = parseVals m vals := by
  induction toks generalizing m vals with
  | nil => cases h; rfl
  | cons f rest ih =>
    obtain ⟨n, ps⟩ := f
    unfold tokVals at h
    unfold parseTokens
    simp only [List.foldlM_cons, applyFunc]
    split at h
    · rename_i hskip
      simp only [hskip, if_true]
      exact ih m vals h
    · rename_i hskip
      simp only [hskip, if_false]
      cases hc : convertParams v n ps with
      | error e => rw [hc] at h; cases h
      | ok cv =>
        rw [hc] at h
        cases hr : tokVals v rest with
        | error e => rw [hr] at h; cases h
        | ok rv =>
          rw [hr] at h
          simp only [bind, Except.bind, pure, Except.pure] at h
          cases h
          simp only [bind, Except.bind, parseVals, List.foldlM_cons]
          cases ha : applyVals m n cv with
          | error e => rfl
          | ok m' => exact ih m' rv hr

/-- **Attribute text denotes its matrix.** If the functions of an element's `transform` text
    convert to values whose list denotes `D` (C04: the SVG/CSS product, right-most function
    first), the text piece stands for `D`: parsed onto any running matrix it applies `D` first. -/
theorem text_denotes (cfg : Cfg K) (s : String) (vals : List (TName × List K)) (D : Mat K)
    (hv : tokVals cfg.num (lexTransform s.toList) = .ok vals) (hD : denote vals = some D) :
    PieceDenotes cfg (.text s) D := by
  intro m
  show parseTokens cfg.num m (lexTransform s.toList) = .ok (mul D m)
  rw [parseTokens_tokVals cfg.num m _ vals hv]
  exact C04_parse_denotes m vals D hD

/-- non-vacuity: a viewport scale below a translate — the point is scaled first, then moved -/
example (cfg : Cfg ℚ) :
    tfMatrix cfg ([.mat (translate 10 20)] ++ [.mat (scale 2 3)]) = .ok (mul (scale 2 3) (mul (translate 10 20) identity)) := rfl

end Matrix
end Svg.Doc

/-! ### 6. reification does not move anything -/
namespace Svg.Reify
section
variable {K : Type} [Field K] [LinearOrder K]
open Svg.Mat

theorem foldable_spec (m : Mat K) (h : foldable m = true) : m.b = 0 ∧ m.c = 0 ∧ m.a ≠ 0 ∧ m.d ≠ 0 := by
  unfold foldable at h
  simp only [Bool.and_eq_true, Bool.not_eq_true', beq_iff_eq, beq_eq_false_iff_ne, ne_eq] at h
  exact ⟨h.1.1.1.2, h.1.1.2, h.1.2, h.2⟩

/-- a foldable matrix is the axis-aligned map `(x, y) ↦ (a x + e, d y + f)` -/
theorem foldable_apply (m : Mat K) (h : foldable m = true) (p : Pt K) :
    apply m p = ⟨m.a * p.x + m.e, m.d * p.y + m.f⟩ := by
  obtain ⟨hb, hc, _, _⟩ := foldable_spec m h
  simp only [apply, hb, hc, Pt.mk.injEq]
  constructor <;> ring

/-- **What is folded in leaves nothing behind**: the residual matrix of a folded rect, circle or
    ellipse is the identity. -/
theorem C03_reify_residual_identity (m : Mat K) (h : foldable m = true) : residual m = identity := by
  obtain ⟨hb, hc, ha, hd⟩ := foldable_spec m h
  simp only [residual, mul, translate, scale, identity, Mat.mk.injEq, hb, hc]
  refine ⟨?_, ?_, ?_, ?_, ?_, ?_⟩ <;> field_simp <;> ring

/-- **Rect.** Every point of the rectangle — given by its box parameters `(u, v)`, and for the
    rounded corners by a corner centre `(x + sx·rx, y + sy·ry)` plus a point `(rx·c, ry·s)` of the
    corner ellipse — is sent by the full matrix exactly where the reified rectangle (new x, y,
    width, height, rx, ry under the identity) has the corresponding point. -/
theorem C03_reify_rect_pointwise (x y w h rx ry u v c s sx sy : K) (m : Mat K) (hf : foldable m = true) :
    let r := (rect x y w h rx ry m).1
    apply m ⟨x + u * w + sx * rx + rx * c, y + v * h + sy * ry + ry * s⟩ =
      ⟨r.getD 0 0 + u * r.getD 2 0 + sx * r.getD 4 0 + r.getD 4 0 * c, r.getD 1 0 + v * r.getD 3 0 + sy * r.getD 5 0 + r.getD 5 0 * s⟩ := by
  simp only [rect, hf, if_true]
  rw [foldable_apply m hf]
  simp only [List.getD_cons_zero, List.getD_cons_succ, Pt.mk.injEq]
  constructor <;> ring

/-- **Circle / ellipse.** The point at parameter `(c, s)` of the ellipse goes to the point at the
    same parameter of the reified ellipse. -/
theorem C03_reify_round_pointwise (cx cy rx ry c s : K) (m : Mat K) (hf : foldable m = true) :
    let r := (round cx cy rx ry m).1
    apply m ⟨cx + rx * c, cy + ry * s⟩ = ⟨r.getD 0 0 + r.getD 2 0 * c, r.getD 1 0 + r.getD 3 0 * s⟩ := by
  simp only [round, hf, if_true]
  rw [foldable_apply m hf]
  simp only [List.getD_cons_zero, List.getD_cons_succ, Pt.mk.injEq]
  constructor <;> ring

/-- not foldable: numbers and matrix are untouched -/
theorem C03_reify_unfoldable_unchanged (x y w h rx ry : K) (m : Mat K) (hf : foldable m = false) :
    rect x y w h rx ry m = ([x, y, w, h, rx, ry], m) ∧
    round x y rx ry m = ([x, y, rx, ry], m) := by
  simp [rect, round, hf]

/-- **Lines, polylines, polygons.** Every point is replaced by its image and the matrix reset:
    the absolute position of each point is the same before and after. -/
theorem C03_reify_points (ps : List (Pt K)) (m : Mat K) :
    ((points ps m).1.map (apply (points ps m).2)) = ps.map (apply m) := by
  simp only [points, List.map_map]
  apply List.map_congr_left
  intro p _
  exact (C04.C04_identity_neutral m (apply m p)).2.2

end
end Svg.Reify

