/-
  Props/C12.lean — property C12: length units resolve by CSS ratios; length arithmetic agrees
  with the resolved values. Statements over an arbitrary linearly ordered field.
-/
import SvgVerif.Model.Length
import Mathlib.Tactic.Ring
import Mathlib.Tactic.FieldSimp
import Mathlib.Tactic.Linarith
import Mathlib.Tactic.NormNum
import Mathlib.Tactic.Positivity
import Mathlib.Algebra.Order.Field.Basic

set_option linter.unusedSectionVars false
set_option linter.unusedVariables false

namespace Svg.C12
open Svg

variable {K : Type} [Field K] [LinearOrder K] [IsStrictOrderedRing K]

/-! ### Specification -/

/-- CSS absolute-unit ratios to user units at `ppi` pixels per inch:
    1in = ppi = 2.54cm = 25.4mm, 1pt = 4/3, 1pc = 16, px = unitless = 1. -/
def cssFactor (ppi : K) : LUnit → Option K
  | .px => some 1
  | .none_ => some 1
  | .pt => some (4 / 3)
  | .pc => some 16
  | .inch => some ppi
  | .cm => some (ppi * (100 / 254))
  | .mm => some (ppi * (10 / 254))
  | _ => none

/-- The ratios the library uses: identical except for the truncated inch constants of cm / mm. -/
def libFactor (ppi : K) : LUnit → Option K
  | .px => some 1
  | .none_ => some 1
  | .pt => some (4 / 3)
  | .pc => some 16
  | .inch => some ppi
  | .cm => some (ppi * (393701 / 1000000))
  | .mm => some (ppi * (393701 / 10000000))
  | _ => none

/-- resolved value of an absolute length with the library's ratios -/
def res (ppi : K) (l : Len K) : Option K := (libFactor ppi l.units).map (l.amount * ·)

/-- units of one family are convertible into each other without any context -/
def family : LUnit → Nat
  | .px | .none_ | .pt | .pc => 1
  | .inch | .cm | .mm => 2
  | _ => 0

/-! ### Unit resolution -/

/-- px, unitless, pt, pc and in resolve by exactly the CSS ratios. -/
theorem C12_value_absolute (a ppi : K) (c : LenCtx K) (hc : c.ppi = some ppi) (u : LUnit)
    (hu : u = .px ∨ u = .none_ ∨ u = .pt ∨ u = .pc ∨ u = .inch) (f : K)
    (hf : cssFactor ppi u = some f) :
    Len.value ⟨a, u⟩ c = .num (a * f) := by
  rcases hu with rfl | rfl | rfl | rfl | rfl <;>
    simp only [cssFactor, Option.some.injEq] at hf <;> subst hf <;>
    simp only [Len.value, Len.valueAbs, hc, nat, LenVal.num.injEq] <;> push_cast <;> ring

/-- cm and mm resolve with the library's 6-digit inch constants (known finding D18): the value is
    `amount · ppi · 0.393701` resp. `· 0.0393701`, whose relative deviation from the CSS ratio
    (1/2.54, 1/25.4) is below 5.4e-7. The full-strength statement (`= amount · ppi / 2.54`) is false
    of the code; see `C12_cm_not_css`. -/
theorem C12_value_mm_cm_partial (a ppi : K) (c : LenCtx K) (hc : c.ppi = some ppi) :
    Len.value ⟨a, .cm⟩ c = .num (a * ppi * (393701 / 1000000)) ∧
    Len.value ⟨a, .mm⟩ c = .num (a * ppi * (393701 / 10000000)) ∧
    |(393701 / 1000000 : K) - 100 / 254| ≤ (54 / 100000000) * (100 / 254) ∧
    |(393701 / 10000000 : K) - 10 / 254| ≤ (54 / 100000000) * (10 / 254) := by
  refine ⟨?_, ?_, ?_, ?_⟩
  · simp only [Len.value, Len.valueAbs, hc, inPerCm, nat, LenVal.num.injEq]; push_cast; ring
  · simp only [Len.value, Len.valueAbs, hc, inPerMm, nat, LenVal.num.injEq]; push_cast; ring
  · rw [abs_le]; constructor <;> norm_num
  · rw [abs_le]; constructor <;> norm_num

/-- The negation of the full statement on a concrete witness: 1cm at 254 ppi is not 100 units. -/
theorem C12_cm_not_css :
    Len.value (K := ℚ) ⟨1, .cm⟩ { ppi := some 254 } ≠ .num (1 * (254 * (100 / 254))) := by
  simp only [Len.value, Len.valueAbs, inPerCm, nat, ne_eq, LenVal.num.injEq]
  norm_num

/-- Percentages of a numeric reference, em/ex of the font metrics, vw/vh/vmin/vmax of the viewBox. -/
theorem C12_value_relative (a r fs fh w h : K) :
    Len.value ⟨a, .pct⟩ { rel := some (.num r) } = .num (a / 100 * r) ∧
    Len.value ⟨a, .em⟩ { fontSize := some fs } = .num (a * fs) ∧
    Len.value ⟨a, .ex⟩ { fontHeight := some fh } = .num (a * fh) ∧
    Len.value ⟨a, .vw⟩ { viewbox := some (w, h) } = .num (a * w / 100) ∧
    Len.value ⟨a, .vh⟩ { viewbox := some (w, h) } = .num (a * h / 100) ∧
    Len.value ⟨a, .vmin⟩ { viewbox := some (w, h) } = .num (a * min w h / 100) ∧
    Len.value ⟨a, .vmax⟩ { viewbox := some (w, h) } = .num (a * max w h / 100) := by
  refine ⟨?_, ?_, ?_, ?_, ?_, ?_, ?_⟩
  all_goals simp only [Len.value, Len.valueAbs, nat, LenVal.num.injEq, kmin, kmax]
  all_goals push_cast
  all_goals first
    | rfl
    | (simp only [min_def, max_def]
       split_ifs <;> first
         | rfl
         | (exfalso; linarith)
         | (have hwh : w = h := le_antisymm ‹w ≤ h› (not_lt.mp ‹¬w < h›); subst hwh; rfl))

/-- A percentage of a reference given as a Length (or a string denoting one) is that fraction of the
    reference, in the reference's unit (non-zero amounts). -/
theorem C12_percent_of_length (a b : K) (u : LUnit) (c : LenCtx K) (ha : a ≠ 0) (hb : b ≠ 0)
    (hu : u ≠ .pct) :
    Len.value ⟨a, .pct⟩ { c with rel := some (.lenObj ⟨b, u⟩) } =
      Len.valueAbs ⟨b * a / 100, u⟩ c.ppi c.fontSize c.fontHeight c.viewbox ∧
    Len.value ⟨a, .pct⟩ { c with rel := some (.lenStr ⟨b, u⟩) } =
      Len.valueAbs ⟨a * b / 100, u⟩ c.ppi c.fontSize c.fontHeight c.viewbox := by
  constructor <;>
    simp only [Len.value, beq_iff_eq, ha, hb, hu, if_false, nat] <;> push_cast <;> rfl

/-- A length that cannot be resolved with the information given stays symbolic: it is returned
    unchanged, never guessed. -/
theorem C12_symbolic (a : K) (c : LenCtx K) :
    (c.ppi = none → Len.value ⟨a, .inch⟩ c = .sym ⟨a, .inch⟩ ∧ Len.value ⟨a, .cm⟩ c = .sym ⟨a, .cm⟩
      ∧ Len.value ⟨a, .mm⟩ c = .sym ⟨a, .mm⟩) ∧
    (c.rel = none → Len.value ⟨a, .pct⟩ c = .sym ⟨a, .pct⟩) ∧
    (c.fontSize = none → Len.value ⟨a, .em⟩ c = .sym ⟨a, .em⟩) ∧
    (c.fontHeight = none → Len.value ⟨a, .ex⟩ c = .sym ⟨a, .ex⟩) ∧
    (c.viewbox = none → Len.value ⟨a, .vw⟩ c = .sym ⟨a, .vw⟩ ∧ Len.value ⟨a, .vh⟩ c = .sym ⟨a, .vh⟩
      ∧ Len.value ⟨a, .vmin⟩ c = .sym ⟨a, .vmin⟩ ∧ Len.value ⟨a, .vmax⟩ c = .sym ⟨a, .vmax⟩) := by
  refine ⟨fun h => ?_, fun h => ?_, fun h => ?_, fun h => ?_, fun h => ?_⟩ <;>
    simp [Len.value, Len.valueAbs, h]

/-! ### Arithmetic agrees with the resolved values -/

/-- `a + b` resolves to the sum of the resolved values, whenever the library returns a result
    and both operands resolve (any ppi). -/
theorem C12_add_resolves (ppi : K) (s o r : Len K) (x y : K)
    (h : Len.iadd s o = .ok r) (hx : res ppi s = some x) (hy : res ppi o = some y) :
    res ppi r = some (x + y) := by
  obtain ⟨a, us⟩ := s
  obtain ⟨b, uo⟩ := o
  simp only [res, Option.map_eq_some_iff] at hx hy
  obtain ⟨fs, hfs, rfl⟩ := hx
  obtain ⟨fo, hfo, rfl⟩ := hy
  unfold Len.iadd at h
  simp only [beq_iff_eq] at h
  split_ifs at h with h1 h2 h3
  · simp only [Except.ok.injEq] at h; subst h; subst h1
    simp only [res, hfs, Option.map_some] at hfo ⊢
    rw [Option.some.injEq] at hfo; subst hfo; congr 1; ring
  · simp only [Except.ok.injEq] at h; subst h; subst h2
    simp only [res, hfo, Option.map_some]; congr 1; ring
  · simp only [Except.ok.injEq] at h; subst h; subst h3
    simp only [res, hfs, Option.map_some]; congr 1; ring
  · cases us <;> simp only [libFactor, Option.some.injEq, reduceCtorEq] at hfs <;>
      cases uo <;> simp only [libFactor, Option.some.injEq, reduceCtorEq] at hfo <;>
      subst hfs <;> subst hfo <;>
      simp only [Except.ok.injEq, reduceCtorEq] at h <;>
      (try exact absurd rfl h1) <;>
      subst h <;>
      simp only [res, libFactor, Option.map_some, nat, inPerCm, inPerMm, Option.some.injEq] <;>
      push_cast <;> ring

/-- Same for subtraction. -/
theorem C12_sub_resolves (ppi : K) (s o r : Len K) (x y : K)
    (h : Len.sub s o = .ok r) (hx : res ppi s = some x) (hy : res ppi o = some y) :
    res ppi r = some (x - y) := by
  have hy' : res ppi (Len.neg o) = some (-y) := by
    simp only [res, Len.neg, Option.map_eq_some_iff] at hy ⊢
    obtain ⟨f, hf, rfl⟩ := hy
    exact ⟨f, hf, by ring⟩
  have := C12_add_resolves ppi s (Len.neg o) r x (-y) h hx hy'
  rw [this]; congr 1; ring

/-- Commensurable pairs (same family) are always added, never rejected. -/
theorem C12_add_commensurable (s o : Len K) (hf : family s.units = family o.units)
    (hne : family s.units ≠ 0) : ∃ r, Len.iadd s o = .ok r := by
  obtain ⟨a, us⟩ := s
  obtain ⟨b, uo⟩ := o
  unfold Len.iadd
  split_ifs
  · exact ⟨_, rfl⟩
  · exact ⟨_, rfl⟩
  · exact ⟨_, rfl⟩
  · cases us <;> cases uo <;> first | exact ⟨_, rfl⟩ | simp_all [family]

/-- `a / b` is the ratio of the resolved values. -/
theorem C12_div_ratio (ppi : K) (s o : Len K) (q x y : K)
    (h : Len.div s o = .ok q) (hx : res ppi s = some x) (hy : res ppi o = some y) (hy0 : y ≠ 0) :
    q = x / y := by
  obtain ⟨a, us⟩ := s
  obtain ⟨b, uo⟩ := o
  simp only [res, Option.map_eq_some_iff] at hx hy
  obtain ⟨fs, hfs, rfl⟩ := hx
  obtain ⟨fo, hfo, rfl⟩ := hy
  have hb : b ≠ 0 := left_ne_zero_of_mul hy0
  have hfo0 : fo ≠ 0 := right_ne_zero_of_mul hy0
  unfold Len.div at h
  simp only [beq_iff_eq] at h
  have hpd : ∀ d : K, pdiv a d = .ok q → d ≠ 0 ∧ q = a / d := by
    intro d hd
    unfold pdiv at hd
    simp only [beq_iff_eq] at hd
    split_ifs at hd with hz
    · simp only [Except.ok.injEq] at hd; exact ⟨hz, hd.symm⟩
  split_ifs at h with h1 h2
  · simp only [Except.ok.injEq] at h; subst h; subst h1; simp
  · subst h2
    obtain ⟨-, rfl⟩ := hpd _ h
    rw [hfs, Option.some.injEq] at hfo; subst hfo
    field_simp
  · cases us <;> simp only [libFactor, Option.some.injEq, reduceCtorEq] at hfs <;>
      cases uo <;> simp only [libFactor, Option.some.injEq, reduceCtorEq] at hfo <;>
      subst hfs <;> subst hfo <;>
      (try simp only [reduceCtorEq] at h) <;>
      (try exact absurd rfl h2) <;>
      (obtain ⟨-, rfl⟩ := hpd _ h) <;>
      (try simp only [nat, inPerCm, inPerMm]) <;> (try push_cast) <;>
      (try (have hp : ppi ≠ 0 := by
              intro hp; apply hfo0; rw [hp]; ring)) <;>
      field_simp <;> ring

/-- factors are positive at positive ppi -/
theorem libFactor_pos (ppi : K) (hp : 0 < ppi) (u : LUnit) (f : K) (h : libFactor ppi u = some f) :
    0 < f := by
  cases u <;> simp only [libFactor, Option.some.injEq, reduceCtorEq] at h <;> subst h <;> positivity

/-- `a < b` is the numeric order of the resolved values (ppi > 0). -/
theorem C12_lt_order (ppi : K) (hp : 0 < ppi) (s o : Len K) (t : Bool) (x y : K)
    (h : Len.lt s o = .ok t) (hx : res ppi s = some x) (hy : res ppi o = some y) :
    (t = true ↔ x < y) := by
  unfold Len.lt at h
  cases hd : Len.sub s o with
  | error e => simp [hd, bind, Except.bind] at h
  | ok d =>
    simp only [hd, bind, Except.bind, Except.ok.injEq] at h
    have hr := C12_sub_resolves ppi s o d x y hd hx hy
    simp only [res, Option.map_eq_some_iff] at hr
    obtain ⟨f, hf, hfe⟩ := hr
    have hf0 := libFactor_pos ppi hp _ f hf
    subst h
    simp only [decide_eq_true_eq]
    constructor
    · intro hlt
      have : d.amount * f < 0 := mul_neg_of_neg_of_pos hlt hf0
      linarith
    · intro hlt
      by_contra hge
      have : 0 ≤ d.amount * f := mul_nonneg (not_lt.mp hge) hf0.le
      linarith

/-- `a == b` holds exactly when the resolved values agree to within the library's ERROR, for
    lengths of the pixel family (px, unitless, pt, pc). -/
theorem C12_eq_pixels (eps : K) (he : 0 ≤ eps) (s o : Len K) (x y : K)
    (hs : family s.units = 1) (ho : family o.units = 1)
    (hx : res 1 s = some x) (hy : res 1 o = some y) :
    (Len.eq eps s o = true ↔ |x - y| ≤ eps) := by
  obtain ⟨a, us⟩ := s
  obtain ⟨b, uo⟩ := o
  have key : ∀ u : LUnit, family u = 1 → ∀ c : K, ∃ v, Len.inPixels ⟨c, u⟩ = some v ∧
      res 1 ⟨c, u⟩ = some v ∧ Len.inInches ⟨c, u⟩ = none := by
    intro u hu c
    cases u <;> (try (simp [family] at hu; done)) <;>
      simp only [Len.inPixels, Len.inInches, res, libFactor, Option.map_some, nat,
        Option.some.injEq, exists_eq_left', and_true] <;> push_cast <;> ring
  obtain ⟨x', hx1, hx2, hx3⟩ := key us hs a
  obtain ⟨y', hy1, hy2, hy3⟩ := key uo ho b
  rw [hx] at hx2; rw [hy] at hy2
  simp only [Option.some.injEq] at hx2 hy2
  subst hx2 hy2
  unfold Len.eq
  simp only [hx1, hy1, hx3, kabs, beq_iff_eq]
  have habs : (if x - y < 0 then -(x - y) else x - y) = |x - y| := by
    split_ifs with hneg
    · rw [abs_of_neg hneg]
    · rw [abs_of_nonneg (not_lt.mp hneg)]
  simp only [habs]
  split_ifs with h1 h2
  · obtain ⟨rfl, rfl⟩ := h1
    rw [hx1, Option.some.injEq] at hy1; subst hy1
    simp [he]
  · simp only [decide_eq_true_eq] at h2; simp [h2]
  · simp only [decide_eq_true_eq] at h2; simp [h2]

/-! ### Non-vacuity -/

example : Len.iadd (K := ℚ) ⟨3, .pt⟩ ⟨4, .px⟩ = .ok ⟨6, .pt⟩ := by
  simp [Len.iadd, nat]; norm_num
example : res (96 : ℚ) ⟨3, .pt⟩ = some 4 ∧ res (96 : ℚ) ⟨4, .px⟩ = some 4 := by
  simp only [res, libFactor, Option.map_some]; norm_num
example : Len.div (K := ℚ) ⟨1, .inch⟩ ⟨254, .mm⟩ = .ok (10000000 / (254 * 393701)) := by
  simp [Len.div, pdiv, nat, inPerMm]; norm_num

/-- **Zero is zero in every unit.** A length of amount 0 equals the number 0 whatever its unit — also
    for units that cannot be converted to pixels without a context (mm, in, %, em, vw …). -/
theorem C12_zero_equals_number_zero (eps : K) (he : 0 ≤ eps) (u : LUnit) :
    Len.eqNum eps ⟨0, u⟩ 0 = true := by
  unfold Len.eqNum Len.inPixels
  cases u <;> simp [kabs, nat, he]

/-- a pixel-family length equals a number exactly when its pixel value is within `eps` of it -/
theorem C12_eq_number_pixels (eps a x : K) :
    Len.eqNum eps ⟨a, .pt⟩ x = decide (kabs (a * nat 4 / nat 3 - x) ≤ eps) := by
  simp [Len.eqNum, Len.inPixels]

end Svg.C12
