/-
  Props/C02.lean — property C02: affine maps commute with geometry for every segment kind.

  Lines and Béziers: exact, over any field, every matrix. Arcs: the position on the ellipse is the
  algebraic denotation `center + (prx−center)·cos + (pry−center)·sin`; the theorems show that
  (1) mapping the five stored points maps every point of the denotation, (2) the
  re-orthogonalisation step keeps the same ellipse and only shifts the parameter, (3) it makes the
  stored semi-diameters perpendicular, and (4) the library's evaluator (`point_at_t`, which uses
  only the *length* of `pry − center`) coincides with the denotation exactly when they are
  perpendicular — which is why (3) is needed. The one step not carried by a theorem is the
  trigonometric inversion `t_at_point ∘ point_at_t` (KL, DESIGN.md §3), exercised by the
  correspondence stream.
-/
import SvgVerif.Model.Seg
import Mathlib.Tactic.Ring
import Mathlib.Tactic.LinearCombination
import Mathlib.Tactic.FieldSimp
import Mathlib.Algebra.Field.Basic

set_option linter.unusedSectionVars false
set_option linter.unusedVariables false

namespace Svg.C02
open Svg Svg.Seg Svg.Mat

variable {K : Type} [Field K]

/-! ### Lines and Béziers -/

theorem C02_line (m : Mat K) (s e : Pt K) (t : K) :
    linePoint (m.apply s) (m.apply e) t = m.apply (linePoint s e t) := by
  simp only [linePoint, Pt.towards, apply, Pt.mk.injEq]
  constructor <;> ring

theorem C02_quad (m : Mat K) (p0 p1 p2 : Pt K) (t : K) :
    quadPoint (m.apply p0) (m.apply p1) (m.apply p2) t = m.apply (quadPoint p0 p1 p2 t) := by
  simp only [quadPoint, apply, two, Pt.mk.injEq]
  constructor <;> ring

theorem C02_cubic (m : Mat K) (p0 p1 p2 p3 : Pt K) (t : K) :
    cubicPoint (m.apply p0) (m.apply p1) (m.apply p2) (m.apply p3) t
      = m.apply (cubicPoint p0 p1 p2 p3 t) := by
  simp only [cubicPoint, apply, three, Pt.mk.injEq]
  constructor <;> ring

/-- point evaluation of the point-defined kinds, total (a missing start is the end point) -/
def bezPoint : Seg K → K → Pt K
  | .move _ e, _ => e
  | .line (some s) e, t => linePoint s e t
  | .close (some s) e, t => linePoint s e t
  | .line none e, _ => e
  | .close none e, _ => e
  | .quad s c e, t => quadPoint s c e t
  | .cubic s c1 c2 e, t => cubicPoint s c1 c2 e t
  | .arc a, _ => a.end_

def isArc : Seg K → Bool
  | .arc _ => true
  | _ => false

/-- **(X * M).point(t) = M(X.point(t))** for every move, line, close, quadratic and cubic, every
    matrix (invertible or not), every t. -/
theorem C02_bezier (m : Mat K) (s : Seg K) (h : isArc s = false) (t : K) :
    bezPoint (mulBezier m s) t = m.apply (bezPoint s t) := by
  cases s with
  | move s e => rfl
  | line s e => cases s <;> simp [mulBezier, bezPoint, C02_line]
  | close s e => cases s <;> simp [mulBezier, bezPoint, C02_line]
  | quad s c e => simp [mulBezier, bezPoint, C02_quad]
  | cubic s c1 c2 e => simp [mulBezier, bezPoint, C02_cubic]
  | arc a => simp [isArc] at h

/-- end and control points are mapped too -/
theorem C02_endpoints (m : Mat K) (s : Seg K) (h : isArc s = false) :
    (mulBezier m s).end_ = m.apply s.end_ ∧ (mulBezier m s).start? = s.start?.map m.apply := by
  cases s <;> simp_all [mulBezier, Seg.end_, Seg.start?, isArc]

theorem apply_mul (A B : Mat K) (p : Pt K) : (Mat.mul A B).apply p = B.apply (A.apply p) := by
  simp only [Mat.apply, Mat.mul, Pt.mk.injEq]
  constructor <;> ring

/-- composition: `(X * A) * B = X * (A * B)` -/
theorem C02_compose (A B : Mat K) (s : Seg K) (h : isArc s = false) :
    mulBezier B (mulBezier A s) = mulBezier (Mat.mul A B) s := by
  cases s with
  | move s e => cases s <;> simp [mulBezier, apply_mul]
  | line s e => cases s <;> simp [mulBezier, apply_mul]
  | close s e => cases s <;> simp [mulBezier, apply_mul]
  | quad s c e => simp [mulBezier, apply_mul]
  | cubic s c1 c2 e => simp [mulBezier, apply_mul]
  | arc a => simp [isArc] at h

/-- paths, subpaths, polylines, polygons, straight rects: a list of such segments, any length -/
theorem C02_path (m : Mat K) (segs : List (Seg K)) (h : ∀ s ∈ segs, isArc s = false) (t : K) :
    (segs.map (mulBezier m)).map (fun s => bezPoint s t) = segs.map (fun s => m.apply (bezPoint s t)) := by
  rw [List.map_map]
  apply List.map_congr_left
  intro s hs
  exact C02_bezier m s (h s hs) t

/-! ### Arcs -/

/-- (1) Mapping the five stored points maps every point of the ellipse: the denotation commutes
    with every affine matrix (rotation, reflection, non-uniform scale, skew, singular too). -/
theorem C02_arc_den (m : Mat K) (a : ArcData K) (ct st : K) :
    (a.mapPoints m).den ct st = m.apply (a.den ct st) := by
  simp only [ArcData.den, ArcData.mapPoints, apply, Pt.mk.injEq]
  constructor <;> ring

/-- composition for arcs -/
theorem C02_arc_compose (A B : Mat K) (a : ArcData K) :
    (a.mapPoints A).mapPoints B = a.mapPoints (Mat.mul A B) := by
  simp only [ArcData.mapPoints, apply_mul]

/-- (2) Re-orthogonalisation keeps the ellipse: rotating the pair of conjugate semi-diameters by
    the angle (c0, s0) is a shift of the parameter by that angle, for any unit (c0, s0). -/
theorem C02_arc_reorth_same_points (a : ArcData K) (c0 s0 ct st : K) (h0 : c0 * c0 + s0 * s0 = 1) :
    (a.reorth c0 s0).den (ct * c0 + st * s0) (st * c0 - ct * s0) = a.den ct st := by
  simp only [ArcData.den, ArcData.reorth, Pt.mk.injEq]
  constructor
  · linear_combination ((a.prx.x - a.center.x) * ct + (a.pry.x - a.center.x) * st) * h0
  · linear_combination ((a.prx.y - a.center.y) * ct + (a.pry.y - a.center.y) * st) * h0

/-- the shifted parameter is again a point of the unit circle -/
theorem C02_param_shift_unit (c0 s0 ct st : K) (h0 : c0 * c0 + s0 * s0 = 1) (ht : ct * ct + st * st = 1) :
    (ct * c0 + st * s0) * (ct * c0 + st * s0) + (st * c0 - ct * s0) * (st * c0 - ct * s0) = 1 := by
  linear_combination (ct * ct + st * st) * h0 + ht

/-- (3) With the half-angle chosen as in the code — `2·t0 = atan2(2 u·v, |u|² − |v|²)`, i.e.
    `cos 2t0 · (u·v) = (sin 2t0 / 2) · (|u|² − |v|²)`, written with `cos 2t0 = c0² − s0²` and
    `sin 2t0 / 2 = c0 s0` — the new semi-diameters are perpendicular. -/
theorem C02_arc_reorth_orthogonal (a : ArcData K) (c0 s0 : K)
    (hd : (c0 * c0 - s0 * s0) *
            ((a.prx.x - a.center.x) * (a.pry.x - a.center.x) + (a.prx.y - a.center.y) * (a.pry.y - a.center.y))
        = (c0 * s0) *
            (((a.prx.x - a.center.x) * (a.prx.x - a.center.x) + (a.prx.y - a.center.y) * (a.prx.y - a.center.y))
              - ((a.pry.x - a.center.x) * (a.pry.x - a.center.x) + (a.pry.y - a.center.y) * (a.pry.y - a.center.y)))) :
    let b := a.reorth c0 s0
    (b.prx.x - b.center.x) * (b.pry.x - b.center.x) + (b.prx.y - b.center.y) * (b.pry.y - b.center.y) = 0 := by
  simp only [ArcData.reorth]
  linear_combination hd

/-- the orientation (sign of the cross product of the semi-diameters) is preserved by the
    re-orthogonalisation and multiplied by `det M` by the point map — so `det M < 0` flips it, which
    is what the code's `sweep = −sweep` compensates. -/
theorem C02_arc_orientation (m : Mat K) (a : ArcData K) (c0 s0 : K) (h0 : c0 * c0 + s0 * s0 = 1) :
    let cross := fun (b : ArcData K) =>
      (b.prx.x - b.center.x) * (b.pry.y - b.center.y) - (b.prx.y - b.center.y) * (b.pry.x - b.center.x)
    cross (a.reorth c0 s0) = cross a ∧ cross (a.mapPoints m) = m.det * cross a := by
  simp only [ArcData.reorth, ArcData.mapPoints, Mat.apply, Mat.det]
  constructor
  · linear_combination ((a.prx.x - a.center.x) * (a.pry.y - a.center.y)
      - (a.prx.y - a.center.y) * (a.pry.x - a.center.x)) * h0
  · ring

/-- (4) The library's evaluator `point_at_t` — `c + a cos t (cos ρ, sin ρ) + b sin t (−sin ρ, cos ρ)`
    with `a = |prx − c|`, `b = |pry − c|`, `ρ` the direction of `prx − c` — equals the denotation
    when `pry − c` is the positively oriented perpendicular of length `b`, and equals the
    denotation run backwards (`sin ↦ −sin`) when it is the negatively oriented one. -/
theorem C02_evaluator_is_den (a : ArcData K) (ra rb cosr sinr ct st : K)
    (hx : ra * cosr = a.prx.x - a.center.x) (hy : ra * sinr = a.prx.y - a.center.y) :
    (a.pry.x - a.center.x = -(rb * sinr) → a.pry.y - a.center.y = rb * cosr →
      (⟨a.center.x + ra * ct * cosr - rb * st * sinr, a.center.y + ra * ct * sinr + rb * st * cosr⟩ : Pt K)
        = a.den ct st) ∧
    (a.pry.x - a.center.x = rb * sinr → a.pry.y - a.center.y = -(rb * cosr) →
      (⟨a.center.x + ra * ct * cosr - rb * st * sinr, a.center.y + ra * ct * sinr + rb * st * cosr⟩ : Pt K)
        = a.den ct (-st)) := by
  constructor
  · intro h1 h2
    simp only [ArcData.den, Pt.mk.injEq, h1, h2, ← hx, ← hy]
    constructor <;> ring
  · intro h1 h2
    simp only [ArcData.den, Pt.mk.injEq, h1, h2, ← hx, ← hy]
    constructor <;> ring

/-- Why (3) matters: a witness of non-perpendicular stored semi-diameters on which the evaluator's
    formula and the true image differ (the defect repaired by the `fix:` commit for D2). -/
theorem C02_nonorthogonal_counterexample :
    ∃ (a : ArcData ℚ) (ra rb cosr sinr : ℚ),
      ra * cosr = a.prx.x - a.center.x ∧ ra * sinr = a.prx.y - a.center.y ∧
      rb * rb = (a.pry.x - a.center.x) * (a.pry.x - a.center.x) + (a.pry.y - a.center.y) * (a.pry.y - a.center.y) ∧
      (⟨a.center.x + ra * 0 * cosr - rb * 1 * sinr, a.center.y + ra * 0 * sinr + rb * 1 * cosr⟩ : Pt ℚ)
        ≠ a.den 0 1 :=
  ⟨⟨⟨0, 0⟩, ⟨0, 0⟩, ⟨0, 0⟩, ⟨1, 0⟩, ⟨3, 4⟩, 1⟩, 1, 5, 1, 0, by norm_num, by norm_num, by norm_num,
    by simp [ArcData.den]⟩

/-! ### Non-vacuity -/
example : cubicPoint (K := ℚ) ⟨0, 0⟩ ⟨1, 2⟩ ⟨3, 2⟩ ⟨4, 0⟩ (1 / 2) = ⟨2, 3 / 2⟩ := by
  simp only [cubicPoint, three]; norm_num

end Svg.C02
