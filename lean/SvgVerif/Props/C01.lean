/-
  Props/C01.lean — Path data is interpreted exactly as the SVG path grammar prescribes.

  The library keeps no interpreter state: `current_point`, `z_point` and `smooth_point` are
  recomputed from the stored segments at every command. The theorems below show that this
  reconstruction coincides, for every command list of every length, with the explicit-state
  interpreter of the specification (Spec/PathSpec.lean), and that the result is connected.
  They hold over any scalar type with the listed operations (no field axioms are needed), so in
  particular for the `Float` instance the driver runs.
-/
import SvgVerif.Spec.PathSpec
namespace Svg
namespace C01

variable {K : Type}

/-! ### state reconstruction lemmas -/

theorem getLast?_snoc (l : List (PSeg K)) (s : PSeg K) : (l ++ [s]).getLast? = some s := by
  simp

theorem currentPoint_snoc (l : List (PSeg K)) (s : PSeg K) : currentPoint (l ++ [s]) = s.end? := by
  simp [currentPoint]

theorem lastMoveEnd_snoc (l : List (PSeg K)) (s : PSeg K) :
    lastMoveEnd (l ++ [s]) = if s.isMove then some s.end? else lastMoveEnd l := by
  induction l with
  | nil => simp [lastMoveEnd]
  | cons a l ih =>
    simp only [List.cons_append, lastMoveEnd, ih]
    by_cases h : s.isMove <;> simp [h]

theorem zPoint_snoc (l : List (PSeg K)) (s : PSeg K) (hne : l ≠ []) :
    zPoint (l ++ [s]) = if s.isMove then s.end? else zPoint l := by
  cases l with
  | nil => exact absurd rfl hne
  | cons a l =>
    unfold zPoint
    rw [lastMoveEnd_snoc]
    by_cases h : s.isMove <;> simp [h]

/-- the specification's "last control point" as read off the last stored segment -/
def ctrlOf : PSeg K → Option (Bool × Pt K)
  | .quad _ _ _ (some c) _ => some (false, c)
  | .cubic _ _ _ _ (some c2) _ => some (true, c2)
  | _ => none

/-- a stored quadratic/cubic whose relevant control point is `None` (only fragments have them) -/
def ctrlDefined : PSeg K → Prop
  | .quad _ _ _ c _ => c.isSome
  | .cubic _ _ _ _ c2 _ => c2.isSome
  | _ => True

/-- the recomputed state of the builder equals the explicit state of the specification -/
structure Inv (segs : List (PSeg K)) (st : IState K) : Prop where
  last : ∃ s, segs.getLast? = some s ∧ ctrlOf s = st.ctrl ∧ ctrlDefined s
  cur : currentPoint segs = some st.cur
  start : zPoint segs = some st.start

section
variable [Add K] [Sub K]

theorem Inv.ne_nil {segs : List (PSeg K)} {st : IState K} (h : Inv segs st) : segs ≠ [] := by
  obtain ⟨s, hs, _⟩ := h.last
  intro hn; simp [hn] at hs

/-- `smooth_quad`'s implied control point = reflection of a *quadratic* control, else the current point -/
theorem smoothQ {segs : List (PSeg K)} {st : IState K} (h : Inv segs st) :
    ∃ sp, smoothPoint segs = .ok sp ∧
      (if lastIsCubic segs then currentPoint segs else sp) = some (reflected false st) := by
  obtain ⟨s, hs, hc, hd⟩ := h.last
  have hcur := h.cur
  cases s with
  | quad r sm a c e =>
    cases c with
    | none => simp [ctrlDefined] at hd
    | some c =>
      simp only [ctrlOf] at hc
      simp [smoothPoint, hs, hcur, lastIsCubic, reflected, ← hc, reflectAcross, pure, Except.pure]
  | cubic r sm a c1 c2 e =>
    cases c2 with
    | none => simp [ctrlDefined] at hd
    | some c2 =>
      simp only [ctrlOf] at hc
      simp [smoothPoint, hs, hcur, lastIsCubic, reflected, ← hc, pure, Except.pure]
  | move r a e => simp only [ctrlOf] at hc; simp [smoothPoint, hs, hcur, lastIsCubic, reflected, ← hc, pure, Except.pure]
  | line r a e => simp only [ctrlOf] at hc; simp [smoothPoint, hs, hcur, lastIsCubic, reflected, ← hc, pure, Except.pure]
  | close r a e => simp only [ctrlOf] at hc; simp [smoothPoint, hs, hcur, lastIsCubic, reflected, ← hc, pure, Except.pure]
  | arc r a rx ry rot fa fs e => simp only [ctrlOf] at hc; simp [smoothPoint, hs, hcur, lastIsCubic, reflected, ← hc, pure, Except.pure]

/-- `smooth_cubic`'s implied control point = reflection of a *cubic* control, else the current point -/
theorem smoothC {segs : List (PSeg K)} {st : IState K} (h : Inv segs st) :
    ∃ sp, smoothPoint segs = .ok sp ∧
      (if lastIsQuad segs then currentPoint segs else sp) = some (reflected true st) := by
  obtain ⟨s, hs, hc, hd⟩ := h.last
  have hcur := h.cur
  cases s with
  | quad r sm a c e =>
    cases c with
    | none => simp [ctrlDefined] at hd
    | some c =>
      simp only [ctrlOf] at hc
      simp [smoothPoint, hs, hcur, lastIsQuad, reflected, ← hc, pure, Except.pure]
  | cubic r sm a c1 c2 e =>
    cases c2 with
    | none => simp [ctrlDefined] at hd
    | some c2 =>
      simp only [ctrlOf] at hc
      simp [smoothPoint, hs, hcur, lastIsQuad, reflected, ← hc, reflectAcross, pure, Except.pure]
  | move r a e => simp only [ctrlOf] at hc; simp [smoothPoint, hs, hcur, lastIsQuad, reflected, ← hc, pure, Except.pure]
  | line r a e => simp only [ctrlOf] at hc; simp [smoothPoint, hs, hcur, lastIsQuad, reflected, ← hc, pure, Except.pure]
  | close r a e => simp only [ctrlOf] at hc; simp [smoothPoint, hs, hcur, lastIsQuad, reflected, ← hc, pure, Except.pure]
  | arc r a rx ry rot fa fs e => simp only [ctrlOf] at hc; simp [smoothPoint, hs, hcur, lastIsQuad, reflected, ← hc, pure, Except.pure]


variable [Neg K] [Zero K] [LT K] [DecidableLT K]

/-- after appending the segment the specification draws, the invariant holds for the specification's
    next state — provided the segment ends where the state says, is a move exactly when the subpath
    start is reset, and carries the control point the state remembers -/
theorem Inv.snoc {segs : List (PSeg K)} {st st' : IState K} (h : Inv segs st) (s : PSeg K)
    (hend : s.end? = some st'.cur) (hctrl : ctrlOf s = st'.ctrl) (hdef : ctrlDefined s)
    (hstart : (if s.isMove then s.end? else some st.start) = some st'.start) : Inv (segs ++ [s]) st' := by
  refine ⟨⟨s, by simp, hctrl, hdef⟩, by rw [currentPoint_snoc]; exact hend, ?_⟩
  rw [zPoint_snoc _ _ h.ne_nil, h.start]; exact hstart

/-- One command. With the builder's recomputed state equal to the specification's explicit state,
    the token-level model of the library draws exactly the specification's segment and the states
    stay equal. -/
theorem step {segs : List (PSeg K)} {st : IState K} (h : Inv segs st) (c : Cmd K) :
    runCmd segs c = .ok (segs ++ [(specStep st c).1]) ∧ Inv (segs ++ [(specStep st c).1]) (specStep st c).2 := by
  have hcur := h.cur
  have hz := h.start
  have hq := smoothQ h
  have hc := smoothC h
  cases c with
  | moveTo rel p =>
    refine ⟨by simp [runCmd, cbMove, rc, hcur, resolve, pathAppend, specStep, offs] <;> first | rfl | (split <;> rfl), ?_⟩
    exact h.snoc _ (by simp [specStep, PSeg.end?]) (by simp [specStep, ctrlOf]) (by simp [specStep, ctrlDefined])
      (by simp [specStep, PSeg.isMove, PSeg.end?])
  | lineTo rel p =>
    refine ⟨by simp [runCmd, cbLine, rc, hcur, resolve, pathAppend, specStep, offs] <;> first | rfl | (split <;> rfl), ?_⟩
    exact h.snoc _ (by simp [specStep, PSeg.end?]) (by simp [specStep, ctrlOf]) (by simp [specStep, ctrlDefined])
      (by simp [specStep, PSeg.isMove])
  | hTo rel x =>
    refine ⟨by simp [runCmd, cbHorizontal, hcur, pathAppend, specStep] <;> first | rfl | (split <;> rfl), ?_⟩
    exact h.snoc _ (by simp [specStep, PSeg.end?]) (by simp [specStep, ctrlOf]) (by simp [specStep, ctrlDefined])
      (by simp [specStep, PSeg.isMove])
  | vTo rel y =>
    refine ⟨by simp [runCmd, cbVertical, hcur, pathAppend, specStep] <;> first | rfl | (split <;> rfl), ?_⟩
    exact h.snoc _ (by simp [specStep, PSeg.end?]) (by simp [specStep, ctrlOf]) (by simp [specStep, ctrlDefined])
      (by simp [specStep, PSeg.isMove])
  | quadTo rel c e =>
    refine ⟨by simp [runCmd, cbQuad, rc, hcur, resolve, pathAppend, specStep, offs] <;> first | rfl | (split <;> rfl), ?_⟩
    exact h.snoc _ (by simp [specStep, PSeg.end?]) (by simp [specStep, ctrlOf]) (by simp [specStep, ctrlDefined])
      (by simp [specStep, PSeg.isMove])
  | smoothQuadTo rel e =>
    obtain ⟨sp, hsp, hif⟩ := hq
    refine ⟨?_, ?_⟩
    · simp only [runCmd, cbSmoothQuad, specStep, hsp, bind, Except.bind, pure, Except.pure, hif]
      simp [hcur, rc, resolve, pathAppend, offs] <;> first | rfl | (split <;> rfl)
    · exact h.snoc _ (by simp [specStep, PSeg.end?]) (by simp [specStep, ctrlOf]) (by simp [specStep, ctrlDefined])
        (by simp [specStep, PSeg.isMove])
  | cubicTo rel c1 c2 e =>
    refine ⟨by simp [runCmd, cbCubic, rc, hcur, resolve, pathAppend, specStep, offs] <;> first | rfl | (split <;> rfl), ?_⟩
    exact h.snoc _ (by simp [specStep, PSeg.end?]) (by simp [specStep, ctrlOf]) (by simp [specStep, ctrlDefined])
      (by simp [specStep, PSeg.isMove])
  | smoothCubicTo rel c2 e =>
    obtain ⟨sp, hsp, hif⟩ := hc
    refine ⟨?_, ?_⟩
    · simp only [runCmd, cbSmoothCubic, specStep, hsp, bind, Except.bind, pure, Except.pure, hif]
      simp [hcur, rc, resolve, pathAppend, offs] <;> first | rfl | (split <;> rfl)
    · exact h.snoc _ (by simp [specStep, PSeg.end?]) (by simp [specStep, ctrlOf]) (by simp [specStep, ctrlDefined])
        (by simp [specStep, PSeg.isMove])
  | arcTo rel rx ry rot fa fs e =>
    refine ⟨by simp [runCmd, cbArc, rc, hcur, resolve, pathAppend, specStep, offs, absR] <;> first | rfl | (split <;> rfl), ?_⟩
    exact h.snoc _ (by simp [specStep, PSeg.end?]) (by simp [specStep, ctrlOf]) (by simp [specStep, ctrlDefined])
      (by simp [specStep, PSeg.isMove])
  | closePath rel =>
    refine ⟨by simp [runCmd, cbClosed, hcur, hz, pathAppend, specStep] <;> rfl, ?_⟩
    exact h.snoc _ (by simp [specStep, PSeg.end?]) (by simp [specStep, ctrlOf]) (by simp [specStep, ctrlDefined])
      (by simp [specStep, PSeg.isMove])
  | lineToZ rel =>
    refine ⟨by simp [runCmd, cbLine, hcur, hz, resolve, pathAppend, specStep] <;> rfl, ?_⟩
    exact h.snoc _ (by simp [specStep, PSeg.end?]) (by simp [specStep, ctrlOf]) (by simp [specStep, ctrlDefined])
      (by simp [specStep, PSeg.isMove])
  | quadToZ rel c =>
    refine ⟨by simp [runCmd, cbQuad, rc, hcur, hz, resolve, pathAppend, specStep, offs] <;> first | rfl | (split <;> rfl), ?_⟩
    exact h.snoc _ (by simp [specStep, PSeg.end?]) (by simp [specStep, ctrlOf]) (by simp [specStep, ctrlDefined])
      (by simp [specStep, PSeg.isMove])
  | smoothQuadToZ rel =>
    obtain ⟨sp, hsp, hif⟩ := hq
    refine ⟨?_, ?_⟩
    · simp only [runCmd, cbSmoothQuad, specStep, hsp, bind, Except.bind, pure, Except.pure, hif]
      simp [hcur, hz, resolve, pathAppend] <;> first | rfl | (split <;> rfl)
    · exact h.snoc _ (by simp [specStep, PSeg.end?]) (by simp [specStep, ctrlOf]) (by simp [specStep, ctrlDefined])
        (by simp [specStep, PSeg.isMove])
  | cubicToZ rel c1 c2 =>
    refine ⟨by simp [runCmd, cbCubic, rc, hcur, hz, resolve, pathAppend, specStep, offs] <;> first | rfl | (split <;> rfl), ?_⟩
    exact h.snoc _ (by simp [specStep, PSeg.end?]) (by simp [specStep, ctrlOf]) (by simp [specStep, ctrlDefined])
      (by simp [specStep, PSeg.isMove])
  | smoothCubicToZ rel c2 =>
    obtain ⟨sp, hsp, hif⟩ := hc
    refine ⟨?_, ?_⟩
    · simp only [runCmd, cbSmoothCubic, specStep, hsp, bind, Except.bind, pure, Except.pure, hif]
      simp [hcur, hz, rc, resolve, pathAppend, offs] <;> first | rfl | (split <;> rfl)
    · exact h.snoc _ (by simp [specStep, PSeg.end?]) (by simp [specStep, ctrlOf]) (by simp [specStep, ctrlDefined])
        (by simp [specStep, PSeg.isMove])
  | arcToZ rel rx ry rot fa fs =>
    refine ⟨by simp [runCmd, cbArc, hcur, hz, resolve, pathAppend, specStep, absR] <;> rfl, ?_⟩
    exact h.snoc _ (by simp [specStep, PSeg.end?]) (by simp [specStep, ctrlOf]) (by simp [specStep, ctrlDefined])
      (by simp [specStep, PSeg.isMove])


/-- every command list, from any state in which the invariant holds -/
theorem run_eq_spec (cmds : List (Cmd K)) : ∀ (segs : List (PSeg K)) (st : IState K), Inv segs st →
    runCmds segs cmds = .ok (segs ++ specRun st cmds) := by
  induction cmds with
  | nil => intro segs st _; simp [runCmds, specRun, pure, Except.pure]
  | cons c cs ih =>
    intro segs st h
    obtain ⟨h1, h2⟩ := step h c
    have := ih _ _ h2
    simp only [runCmds, List.foldlM_cons, h1, bind, Except.bind] at this ⊢
    rw [this]; simp [specRun]

/-- the invariant after the leading move -/
theorem inv_init (rel : Bool) (p : Pt K) : Inv [PSeg.move rel none (some p)] ⟨p, p, none⟩ :=
  ⟨⟨_, rfl, rfl, trivial⟩, rfl, rfl⟩

/-- **C01 (interpretation).** For every command sequence the grammar admits (it begins with a
    moveto; any length, any order of commands, implicit repetitions already expanded), the library's
    builder — which recomputes current point, subpath start and smooth control from the stored
    segments — produces exactly the segment list of the SVG 2 interpreter: same kinds, same order,
    same absolute start/control/end coordinates; a smooth command reflects only a control point of a
    preceding curve of its own degree. -/
theorem C01_builder_refines_interp (cmds : List (Cmd K)) (out : List (PSeg K)) (h : interp cmds = some out) :
    runCmds [] cmds = .ok out := by
  cases cmds with
  | nil => simp [interp] at h
  | cons c cs =>
    cases c <;> simp only [interp, Option.some.injEq, reduceCtorEq] at h
    case moveTo rel p =>
      subst h
      have h0 : runCmd ([] : List (PSeg K)) (.moveTo rel p) = .ok [PSeg.move rel none (some p)] := by
        simp [runCmd, cbMove, rc, currentPoint, resolve, pathAppend] <;> first | rfl | (split <;> rfl)
      have := run_eq_spec cs _ _ (inv_init rel p)
      simp only [runCmds, List.foldlM_cons, h0, bind, Except.bind] at this ⊢
      rw [this]; rfl

/-- one segment per drawn command -/
theorem C01_one_segment_per_command (st : IState K) (cmds : List (Cmd K)) :
    (specRun st cmds).length = cmds.length := by
  induction cmds generalizing st with
  | nil => rfl
  | cons c cs ih => simp [specRun, ih]

/-- connectivity of a segment list drawn from current point `cur` in a subpath begun at `start`:
    each segment starts at the current point, a close returns to the subpath start, a move resets it -/
def ConnectedFrom : Pt K → Pt K → List (PSeg K) → Prop
  | _, _, [] => True
  | cur, start, s :: rest =>
    s.start? = some cur ∧ (s.isClose = true → s.end? = some start) ∧
    ∃ e, s.end? = some e ∧ ConnectedFrom e (if s.isMove then e else start) rest

/-- **C01 (connectivity).** Every segment starts where its predecessor ended and every close
    returns to the start of its own subpath — for every command list. -/
theorem C01_connected (cmds : List (Cmd K)) : ∀ st : IState K, ConnectedFrom st.cur st.start (specRun st cmds) := by
  induction cmds with
  | nil => intro st; trivial
  | cons c cs ih =>
    intro st
    have := ih (specStep st c).2
    cases c <;>
      simpa [specRun, specStep, ConnectedFrom, PSeg.start?, PSeg.end?, PSeg.isClose, PSeg.isMove] using this

/-- the same for what the library builds (by `C01_builder_refines_interp`) -/
theorem C01_connected_path (rel : Bool) (p : Pt K) (cs : List (Cmd K)) :
    ∃ rest, runCmds [] (Cmd.moveTo rel p :: cs) = .ok (PSeg.move rel none (some p) :: rest) ∧ ConnectedFrom p p rest :=
  ⟨_, C01_builder_refines_interp _ _ rfl, C01_connected cs ⟨p, p, none⟩⟩

end

/-! ### non-vacuity: concrete command lists through both interpreters (`Int` scalars) -/

/-- `M0,0 Q10,0 10,10 S20,20 30,10`: S after Q does **not** reflect the quadratic control -/
example : runCmds [] ([.moveTo false ⟨0, 0⟩, .quadTo false ⟨10, 0⟩ ⟨10, 10⟩, .smoothCubicTo false ⟨20, 20⟩ ⟨30, 10⟩] : List (Cmd Int))
    = .ok [.move false none (some ⟨0, 0⟩), .quad false false (some ⟨0, 0⟩) (some ⟨10, 0⟩) (some ⟨10, 10⟩),
           .cubic false true (some ⟨10, 10⟩) (some ⟨10, 10⟩) (some ⟨20, 20⟩) (some ⟨30, 10⟩)] := by rfl

/-- `m1,2 l3,4 q1,1 2,0 t2,0 z l1,1`: relative offsets, T after Q reflects, close then non-move -/
example : interp ([.moveTo true ⟨1, 2⟩, .lineTo true ⟨3, 4⟩, .quadTo true ⟨1, 1⟩ ⟨2, 0⟩, .smoothQuadTo true ⟨2, 0⟩,
                   .closePath true, .lineTo true ⟨1, 1⟩] : List (Cmd Int))
    = some [.move true none (some ⟨1, 2⟩), .line true (some ⟨1, 2⟩) (some ⟨4, 6⟩),
            .quad true false (some ⟨4, 6⟩) (some ⟨5, 7⟩) (some ⟨6, 6⟩), .quad true true (some ⟨6, 6⟩) (some ⟨7, 5⟩) (some ⟨8, 6⟩),
            .close true (some ⟨8, 6⟩) (some ⟨1, 2⟩), .line true (some ⟨1, 2⟩) (some ⟨2, 3⟩)] := by decide

end C01
end Svg
