/-
  Props/C10.lean — document parsing never aborts on a bad element; siblings are unaffected.

  The model (Model/Doc.lean) makes the ways `SVG.parse` can end explicit: `Status.raised e` for
  an exception leaving the loop, `Status.returned` for the early `return s`. The theorems say
  where these can come from — for every document — and that an element influences what is
  rendered outside its subtree only through the rule table.
-/
import SvgVerif.Proofs.DocLoop
import SvgVerif.Proofs.DocCascade
import SvgVerif.Proofs.DocTotal
import SvgVerif.Props.C03
import Batteries.Data.List.Perm
namespace Svg.Doc
set_option linter.unusedSectionVars false

/-! ### 1. `use` expansion always terminates within the budget -/

def keys (defs : List (String × Xml)) : List String := defs.map (·.1)

theorem lookupId_mem (defs : List (String × Xml)) (i : String) (t : Xml) (h : lookupId defs i = some t) : i ∈ keys defs := by
  induction defs with
  | nil => cases h
  | cons p r ih =>
    obtain ⟨k, x⟩ := p
    unfold lookupId at h
    by_cases hk : k = i
    · subst hk; simp [keys]
    · simp only [hk, if_false] at h
      have := ih h
      simp [keys] at this ⊢
      exact Or.inr this

theorem useTarget_spec (defs : List (String × Xml)) (active : List String) (tag : String)
    (attrs : List (String × String)) (i : String) (t : Xml) (h : useTarget defs active tag attrs = some (i, t)) :
    i ∉ active ∧ i ∈ keys defs := by
  unfold useTarget at h
  split at h
  · split at h
    · rename_i url _
      simp only [] at h
      split at h
      · cases h
      · rename_i hc
        cases hl : lookupId defs (String.ofList (List.drop 1 url.toList)) with
        | none => rw [hl] at h; cases h
        | some t' =>
          rw [hl] at h
          simp only [Option.map_some, Option.some.injEq, Prod.mk.injEq] at h
          obtain ⟨h1, _⟩ := h
          subst h1
          exact ⟨by simpa using hc, lookupId_mem _ _ _ hl⟩
    · cases h
  · cases h

/-- the budget invariant: the ids being expanded are distinct ids of the table, and the fuel
    left covers the ids not yet used -/
def Budget (defs : List (String × Xml)) (fuel : Nat) (active : List String) : Prop :=
  active.Nodup ∧ (∀ a ∈ active, a ∈ keys defs) ∧ (keys defs).length + 1 ≤ active.length + fuel

theorem budget_step (defs : List (String × Xml)) (n : Nat) (active : List String) (i : String)
    (hb : Budget defs (n + 1) active) (hi : i ∉ active) (hk : i ∈ keys defs) : Budget defs n (active ++ [i]) := by
  obtain ⟨h1, h2, h3⟩ := hb
  refine ⟨?_, ?_, ?_⟩
  · rw [List.nodup_append]
    exact ⟨h1, by simp, by intro a ha b hb; simp at hb; subst hb; exact fun e => hi (e ▸ ha)⟩
  · intro a ha
    rcases List.mem_append.mp ha with h | h
    · exact h2 a h
    · simp at h; subst h; exact hk
  · simp; omega

theorem budget_zero_absurd (defs : List (String × Xml)) (active : List String) (i : String)
    (hb : Budget defs 0 active) (hi : i ∉ active) (hk : i ∈ keys defs) : False := by
  obtain ⟨h1, h2, h3⟩ := hb
  have hnd : (active ++ [i]).Nodup := by
    rw [List.nodup_append]
    exact ⟨h1, by simp, by intro a ha b hb; simp at hb; subst hb; exact fun e => hi (e ▸ ha)⟩
  have hsub : (active ++ [i]) ⊆ keys defs := by
    intro a ha
    rcases List.mem_append.mp ha with h | h
    · exact h2 a h
    · simp at h; subst h; exact hk
  have := (List.subperm_of_subset hnd hsub).length_le
  simp at this
  omega

mutual
theorem no_overflow_node (defs : List (String × Xml)) (fuel : Nat) (active : List String) (x : Xml)
    (hb : Budget defs fuel active) : Ev.overflow ∉ semi defs fuel active x := by
  match x with
  | .node tag attrs text kids =>
    rw [semi]
    intro hmem
    rcases List.mem_cons.mp hmem with h | h
    · cases h
    · rcases List.mem_append.mp h with h | h
      · rcases List.mem_append.mp h with h | h
        · exact no_overflow_list defs fuel active kids hb h
        · cases hut : useTarget defs active tag attrs with
          | none => rw [hut] at h; cases h
          | some it =>
            obtain ⟨i, target⟩ := it
            rw [hut] at h
            obtain ⟨hi, hk⟩ := useTarget_spec defs active tag attrs i target hut
            cases fuel with
            | zero => exact budget_zero_absurd defs active i hb hi hk
            | succ n =>
              simp only [] at h
              exact no_overflow_node defs n (active ++ [i]) target (budget_step defs n active i hb hi hk) h
      · simp at h
termination_by (fuel, sizeOf x)

theorem no_overflow_list (defs : List (String × Xml)) (fuel : Nat) (active : List String) (l : List Xml)
    (hb : Budget defs fuel active) : Ev.overflow ∉ semiList defs fuel active l := by
  match l with
  | [] => rw [semiList]; simp
  | k :: ks =>
    rw [semiList]
    intro hmem
    rcases List.mem_append.mp hmem with h | h
    · exact no_overflow_node defs fuel active k hb h
    · exact no_overflow_list defs fuel active ks hb h
termination_by (fuel, sizeOf l)
end

/-- **`use` expansion terminates.** For every document — references to missing ids, to the `use`
    itself, to an ancestor, mutual cycles of any length — the event stream is produced within a
    nesting depth of (number of ids) + 1: the recursion-limit event never occurs. -/
theorem C10_use_terminates (roots : List Xml) : Ev.overflow ∉ events roots := by
  unfold events
  apply no_overflow_list
  refine ⟨List.nodup_nil, by simp, ?_⟩
  simp [keys]

/-! ### 2. where an abort can come from -/

section
variable {K : Type} [Add K] [Sub K] [Mul K] [Div K] [Neg K] [Zero K] [One K] [BEq K]
  [LT K] [DecidableLT K] [LE K] [DecidableLE K] [NatCast K]

/-- some element's start event raises `e` -/
def EnterRaises (cfg : Cfg K) (e : PyErr) : Prop :=
  ∃ styles f tag attrs, (enter cfg styles f tag attrs).2.2 = .raised e

mutual
theorem raise_sources_node (cfg : Cfg K) (defs : List (String × Xml)) (fuel : Nat) (active : List String)
    (styles : Dict) (f : Frame K) (x : Xml) (e : PyErr)
    (h : (specNode cfg defs fuel active styles f x).status = .raised e) : e = .recursion ∨ EnterRaises cfg e := by
  match x with
  | .node tag attrs text kids =>
    rw [specNode] at h
    rcases hen : enter cfg styles f tag attrs with ⟨f', outs, st⟩
    rw [hen] at h
    cases st with
    | returned => cases h
    | raised e' =>
      simp only [] at h
      cases h
      exact Or.inr ⟨styles, f, tag, attrs, by rw [hen]⟩
    | running =>
      simp only [] at h
      have ih1 := raise_sources_list cfg defs fuel active styles f' kids e
      generalize specList cfg defs fuel active styles f' kids = r1 at ih1 h
      cases hr1 : r1.status with
      | returned => rw [hr1] at h; cases h
      | raised e' => rw [hr1] at h; simp only [] at h; cases h; exact ih1 hr1
      | running =>
        rw [hr1] at h
        simp only [] at h
        cases hut : useTarget defs active tag attrs with
        | none => rw [hut] at h; cases h
        | some it =>
          obtain ⟨i, target⟩ := it
          rw [hut] at h
          simp only [] at h
          cases fuel with
          | zero => simp only [] at h; cases h; exact Or.inl rfl
          | succ n =>
            simp only [] at h
            have ih2 := raise_sources_node cfg defs n (active ++ [i]) r1.styles f' target e
            generalize specNode cfg defs n (active ++ [i]) r1.styles f' target = r2 at ih2 h
            cases hr2 : r2.status with
            | returned => rw [hr2] at h; cases h
            | running => rw [hr2] at h; cases h
            | raised e' => rw [hr2] at h; simp only [] at h; cases h; exact ih2 hr2
termination_by (fuel, sizeOf x)

theorem raise_sources_list (cfg : Cfg K) (defs : List (String × Xml)) (fuel : Nat) (active : List String)
    (styles : Dict) (f : Frame K) (l : List Xml) (e : PyErr)
    (h : (specList cfg defs fuel active styles f l).status = .raised e) : e = .recursion ∨ EnterRaises cfg e := by
  match l with
  | [] => rw [specList] at h; cases h
  | k :: ks =>
    rw [specList] at h
    have ih1 := raise_sources_node cfg defs fuel active styles f k e
    generalize specNode cfg defs fuel active styles f k = r1 at ih1 h
    cases hr1 : r1.status with
    | returned => rw [hr1] at h; cases h
    | raised e' => rw [hr1] at h; simp only [] at h; cases h; exact ih1 hr1
    | running =>
      rw [hr1] at h
      simp only [] at h
      exact raise_sources_list cfg defs fuel active r1.styles f ks e h
termination_by (fuel, sizeOf l)
end

/-- **The loop itself never aborts.** If `parseDoc` ends with an exception, that exception was
    raised by the start event of some element (a constructor), or is the recursion limit — the
    stack discipline, the inheritance copy, the cascade, `use` inlining and the end events add no
    failure of their own (in particular no pop from an empty stack), for any document. -/
theorem C10_abort_sources (cfg : Cfg K) (f : Frame K) (roots : List Xml) (e : PyErr)
    (h : parseDoc cfg f roots = .error e) : e = .recursion ∨ EnterRaises cfg e := by
  rw [show parseDoc cfg f roots = specDoc cfg f roots from by
        unfold parseDoc specDoc events
        obtain ⟨ho, hst, _⟩ := run_semiList cfg (idTable roots) ((idTable roots).length + 1) [] roots (initSt f) rfl
        simp only []; rw [hst, ho]; rfl] at h
  unfold specDoc at h
  simp only [] at h
  split at h
  · cases h
  · cases h
  · rename_i e' hst
    cases h
    exact raise_sources_list cfg _ _ _ _ f roots e hst

theorem svgEnter_raised (cfg : Cfg K) (n : Bool) (vals : Vals K) (w h : Dim K) (e : PyErr)
    (hsv : svgEnter cfg n vals w h = .raised e) : e = .deferred := by
  unfold svgEnter at hsv
  simp only [] at hsv
  repeat' split at hsv
  all_goals first
    | (cases hsv; done)
    | (injection hsv with hsv; exact hsv.symm)

theorem useEnter_raised (cfg : Cfg K) (vals : Vals K) (e : PyErr)
    (hu : useEnter cfg vals = .error e) : e = .deferred := by
  unfold useEnter at hu
  simp only [] at hu
  repeat' split at hu
  all_goals first
    | (cases hu; done)
    | (injection hu with hu; exact hu.symm)

theorem dispatch_raise_kinds (cfg : Cfg K) (f : Frame K) (vals : Vals K) (tag : String) (e : PyErr)
    (h : (dispatch cfg f vals tag).2.2 = .raised e) : e = .deferred ∨ ∃ ps, cfg.tfErr ps = some e := by
  unfold dispatch at h
  split at h
  · cases h
  split at h
  · rename_i hc
    obtain ⟨_, hsome⟩ := hc
    simp only [] at h
    injection h with h
    cases hv : cfg.tfErr (vals.tf.getD []) with
    | none => rw [hv] at hsome; cases hsome
    | some e' => rw [hv] at h; simp at h; subst h; exact Or.inr ⟨_, hv⟩
  split at h
  · split at h
    · cases h
    · split at h <;> cases h
    · rename_i hsv
      simp only [] at h
      injection h with h
      subst h
      exact Or.inl (svgEnter_raised cfg _ vals f.w f.h _ hsv)
  split at h
  · cases h
  split at h
  · cases h
  split at h
  · split at h
    · cases h
    · rename_i hu
      simp only [] at h
      injection h with h
      subst h
      exact Or.inl (useEnter_raised cfg vals _ hu)
  split at h
  · cases h
  · cases h

/-- **What a start event can raise.** An element's start event raises only what the transform
    parser reports for the *inherited* transform of a container (the caller's `transform=`
    argument — an element's own unparsable transform is dropped, see below), or the marker of a
    length the library keeps symbolic. -/
theorem C10_enter_raise_kinds (cfg : Cfg K) (styles : Dict) (f : Frame K) (tag : String)
    (attrs : List (String × String)) (e : PyErr) (h : (enter cfg styles f tag attrs).2.2 = .raised e) :
    e = .deferred ∨ ∃ ps, cfg.tfErr ps = some e := by
  unfold enter at h
  split at h
  · cases h
  · exact dispatch_raise_kinds cfg f _ tag e h

/-! ### 3. an element in error is skipped or rendered up to the error -/

/-- **A transform that cannot be parsed is ignored**: the element keeps the transform it
    inherited — nothing of the bad text is appended, so descendants are not affected by it. -/
theorem C10_bad_transform_ignored (cfg : Cfg K) (styles : Dict) (f : Frame K) (tag : String)
    (attrs : List (String × String)) (t : String)
    (ht : Dict.get (compileAttrs styles f.vals.d tag attrs) "transform" = some t)
    (hbad : rejects cfg t = true) :
    (compileVals cfg styles f tag attrs).tf = f.vals.tf := by
  unfold compileVals ownTf validAttrs
  simp only [ht, hbad, if_true, Dict.get_erase_self']

/-- **A zero-sized nested svg hides only itself**: the parse keeps running, the element's scope
    is `display:none` (so, by C03_hidden_subtree_renders_nothing, nothing below it is rendered),
    and — by C03_subtree_restores_scope — the following siblings are rendered as if it were absent. -/
theorem C10_zero_nested_svg_hides_itself (cfg : Cfg K) (f : Frame K) (vals : Vals K)
    (hd : displayNone vals.d = false) (hok : (cfg.tfErr (vals.tf.getD [])).isSome = false)
    (hnested : (f.ctx == Ctx.none) = false)
    (hz : svgEnter cfg (f.ctx != .none) vals f.w f.h = .returned) :
    (dispatch cfg f vals "svg").2.2 = .running ∧
    displayNone (dispatch cfg f vals "svg").1.vals.d = true ∧
    (dispatch cfg f vals "svg").2.1 = [] := by
  have hset : displayNone (Dict.set vals.d "display" "none") = true := by
    unfold displayNone
    rw [Dict.get_set]
    simp only [if_true]
    decide
  unfold dispatch
  simp only [hd, hok, hz, hnested, Bool.false_eq_true, if_false, and_false, if_true]
  exact ⟨trivial, hset, trivial⟩

/-! ### 4. siblings -/

theorem specList_append (cfg : Cfg K) (defs : List (String × Xml)) (fuel : Nat) (active : List String)
    (styles : Dict) (f : Frame K) (l1 l2 : List Xml)
    (h1 : (specList cfg defs fuel active styles f l1).status = .running) :
    (specList cfg defs fuel active styles f (l1 ++ l2)).out =
      (specList cfg defs fuel active styles f l1).out ++
      (specList cfg defs fuel active (specList cfg defs fuel active styles f l1).styles f l2).out ∧
    (specList cfg defs fuel active styles f (l1 ++ l2)).status =
      (specList cfg defs fuel active (specList cfg defs fuel active styles f l1).styles f l2).status := by
  induction l1 generalizing styles with
  | nil => rw [specList]; simp
  | cons k ks ih =>
    rw [List.cons_append, specList, specList] at *
    generalize specNode cfg defs fuel active styles f k = r1 at h1 ⊢
    cases hr1 : r1.status with
    | returned => rw [hr1] at h1; cases h1
    | raised e => rw [hr1] at h1; cases h1
    | running =>
      rw [hr1] at h1
      simp only [] at h1 ⊢
      obtain ⟨a, b⟩ := ih r1.styles h1
      rw [a, b]
      simp [List.append_assoc]

/-- **Sibling frame.** Take any element `e` among its siblings. If rendering `e` neither ends the
    parse nor changes the rule table (it contains no `style` element), then the shapes rendered
    for the siblings before and after it are exactly those rendered when `e` is removed from the
    document: `render (pre ++ e :: post) = render pre ++ render e ++ X` and
    `render (pre ++ post) = render pre ++ X` with the same `X`. Whatever is wrong inside `e` —
    attributes, descendants, references — stays inside `e`. -/
theorem C10_sibling_frame (cfg : Cfg K) (defs : List (String × Xml)) (fuel : Nat) (active : List String)
    (styles : Dict) (f : Frame K) (pre post : List Xml) (e : Xml)
    (hpre : (specList cfg defs fuel active styles f pre).status = .running)
    (hrun : (specNode cfg defs fuel active (specList cfg defs fuel active styles f pre).styles f e).status = .running)
    (hsty : (specNode cfg defs fuel active (specList cfg defs fuel active styles f pre).styles f e).styles =
              (specList cfg defs fuel active styles f pre).styles) :
    ∃ X,
      (specList cfg defs fuel active styles f (pre ++ e :: post)).out =
        (specList cfg defs fuel active styles f pre).out ++
        (specNode cfg defs fuel active (specList cfg defs fuel active styles f pre).styles f e).out ++ X ∧
      (specList cfg defs fuel active styles f (pre ++ post)).out =
        (specList cfg defs fuel active styles f pre).out ++ X := by
  refine ⟨(specList cfg defs fuel active (specList cfg defs fuel active styles f pre).styles f post).out, ?_, ?_⟩
  · rw [(specList_append cfg defs fuel active styles f pre (e :: post) hpre).1]
    rw [specList]
    simp only [hrun, hsty, List.append_assoc]
  · exact (specList_append cfg defs fuel active styles f pre post hpre).1

end

/-! ### 5. no abort: the whole document model, transform parser included -/

section Total
variable {K : Type} [Add K] [Sub K] [Mul K] [Div K] [Neg K] [Zero K] [One K] [BEq K]
  [LT K] [DecidableLT K] [LE K] [DecidableLE K] [NatCast K] [Trig K] [Color.PyRound K]

theorem tfMatrix_num (c c' : Cfg K) (h : c.num = c'.num) (ps : List (TfPiece K)) :
    tfMatrix c ps = tfMatrix c' ps := by
  unfold tfMatrix
  rw [h]

theorem mkCfg_tfErr (ppi : K) (num : NumLit → K) (ps : List (TfPiece K)) :
    (mkCfg ppi num).tfErr ps = errOf (tfMatrix (mkCfg ppi num) ps) := by
  rw [tfMatrix_num (mkCfg ppi num) ({ ppi := ppi, num := num } : Cfg K) rfl]
  unfold mkCfg
  simp only []
  cases tfMatrix ({ ppi := ppi, num := num } : Cfg K) ps <;> rfl

/-- the configuration the check runs with -/
abbrev liveCfg (ppi : K) (num : NumLit → K) : Cfg K := mkCfg ppi num

theorem tfErr_single (ppi : K) (num : NumLit → K) (p : TfPiece K) :
    (liveCfg ppi num).tfErr [p] = pieceErr (liveCfg ppi num) p := by
  rw [mkCfg_tfErr, tfMatrix_eq_fold]
  simp only [List.foldlM_cons, List.foldlM_nil, pieceErr]
  cases stepFn (liveCfg ppi num) Mat.identity p <;> rfl

theorem rejects_false_fine (ppi : K) (num : NumLit → K) (t : String)
    (h : rejects (liveCfg ppi num) t = false) : PieceFine (liveCfg ppi num) (.text t) := by
  unfold rejects at h
  rw [tfErr_single] at h
  unfold PieceFine
  cases hp : pieceErr (liveCfg ppi num) (TfPiece.text t) with
  | none => exact Or.inl rfl
  | some e =>
    rw [hp] at h
    cases e <;> first | (exact Or.inr rfl) | (simp at h)

theorem validAttrs_transform (cfg : Cfg K) (a : Dict) (t : String)
    (h : Dict.get (validAttrs cfg a) "transform" = some t) : rejects cfg t = false := by
  unfold validAttrs at h
  split at h
  · rename_i t0 h0
    split at h
    · rw [Dict.get_erase_self'] at h; cases h
    · rename_i hr
      rw [h0] at h
      injection h with h
      subst h
      simpa using hr
  · rename_i h0
    rw [h0] at h; cases h

theorem compileVals_fine (ppi : K) (num : NumLit → K) (styles : Dict) (f : Frame K) (tag : String)
    (attrs : List (String × String)) (hf : ScopeFine (liveCfg ppi num) f.vals) :
    ScopeFine (liveCfg ppi num) (compileVals (liveCfg ppi num) styles f tag attrs) := by
  unfold compileVals ownTf ScopeFine
  simp only []
  cases ht : Dict.get (validAttrs (liveCfg ppi num) (compileAttrs styles f.vals.d tag attrs)) "transform" with
  | none => exact hf
  | some t =>
    intro p hp
    simp only [Option.getD_some, List.mem_append, List.mem_singleton] at hp
    rcases hp with h | h
    · exact hf p h
    · rw [h]; exact rejects_false_fine ppi num t (validAttrs_transform _ _ t ht)

/-- what `svg`/`use` add to the transform are generated matrices, which always parse -/
theorem svgEnter_fine (cfg : Cfg K) (n : Bool) (vals v : Vals K) (w h w' h' : Dim K)
    (e : svgEnter cfg n vals w h = .ok v w' h') (hf : ScopeFine cfg vals) : ScopeFine cfg v := by
  unfold svgEnter at e
  simp only [] at e
  repeat' split at e
  all_goals first
    | (cases e; done)
    | (injection e with e1 _ _; subst e1
       intro p hp
       first
         | exact hf p hp
         | (simp only [Option.getD_some, List.mem_append, List.mem_singleton] at hp
            rcases hp with h1 | h1
            · exact hf p h1
            · rw [h1]; exact mat_fine cfg _))

theorem useEnter_fine (cfg : Cfg K) (vals v : Vals K)
    (e : useEnter cfg vals = .ok v) (hf : ScopeFine cfg vals) : ScopeFine cfg v := by
  unfold useEnter at e
  simp only [] at e
  repeat' split at e
  all_goals first
    | (cases e; done)
    | (injection e with e1; subst e1
       intro p hp
       first
         | exact hf p hp
         | (simp only [Option.getD_some, List.mem_append, List.mem_singleton] at hp
            rcases hp with h1 | h1
            · exact hf p h1
            · rw [h1]; exact mat_fine cfg _))

theorem dispatch_fine (ppi : K) (num : NumLit → K) (f : Frame K) (vals : Vals K) (tag : String)
    (hv : ScopeFine (liveCfg ppi num) vals) :
    ScopeFine (liveCfg ppi num) (dispatch (liveCfg ppi num) f vals tag).1.vals ∧
    (∀ e, (dispatch (liveCfg ppi num) f vals tag).2.2 = .raised e → e = .deferred) := by
  constructor
  · unfold dispatch
    repeat' split
    all_goals first
      | exact hv
      | (rename_i e; exact svgEnter_fine _ _ _ _ _ _ _ _ e hv)
      | (rename_i e; exact useEnter_fine _ _ _ e hv)
      | (intro p hp; exact hv p hp)
  · intro e h
    rcases dispatch_raise_kinds (liveCfg ppi num) f vals tag e h with h1 | ⟨ps, h1⟩
    · exact h1
    · -- the only transform the container constructors parse is the scope's own
      unfold dispatch at h
      split at h
      · cases h
      split at h
      · simp only [] at h
        injection h with h
        cases hv' : (liveCfg ppi num).tfErr (vals.tf.getD []) with
        | none => rename_i hc; rw [hv'] at hc; simp at hc
        | some e' =>
          rw [hv'] at h
          simp only [Option.getD_some] at h
          subst h
          rw [mkCfg_tfErr, tfMatrix_eq_fold] at hv'
          exact fold_err_kinds _ _ _ _ hv hv'
      split at h
      · split at h
        · cases h
        · split at h <;> cases h
        · rename_i hsv; simp only [] at h; injection h with h; subst h
          exact svgEnter_raised _ _ vals f.w f.h _ hsv
      split at h
      · cases h
      split at h
      · cases h
      split at h
      · split at h
        · cases h
        · rename_i hu; simp only [] at h; injection h with h; subst h
          exact useEnter_raised _ vals _ hu
      split at h
      · cases h
      · cases h

theorem enter_fine (ppi : K) (num : NumLit → K) (styles : Dict) (f : Frame K) (tag : String)
    (attrs : List (String × String)) (hf : ScopeFine (liveCfg ppi num) f.vals) :
    ScopeFine (liveCfg ppi num) (enter (liveCfg ppi num) styles f tag attrs).1.vals ∧
    (∀ e, (enter (liveCfg ppi num) styles f tag attrs).2.2 = .raised e → e = .deferred) := by
  unfold enter
  split
  · exact ⟨hf, fun e h => by cases h⟩
  · exact dispatch_fine ppi num f _ tag (compileVals_fine ppi num styles f tag attrs hf)

mutual
theorem fine_node (ppi : K) (num : NumLit → K) (defs : List (String × Xml)) (fuel : Nat) (active : List String)
    (styles : Dict) (f : Frame K) (x : Xml) (e : PyErr)
    (hf : ScopeFine (liveCfg ppi num) f.vals) (hb : Budget defs fuel active)
    (h : (specNode (liveCfg ppi num) defs fuel active styles f x).status = .raised e) : e = .deferred := by
  match x with
  | .node tag attrs text kids =>
    have hen := enter_fine ppi num styles f tag attrs hf
    rw [specNode] at h
    rcases he : enter (liveCfg ppi num) styles f tag attrs with ⟨f', outs, st⟩
    rw [he] at h hen
    simp only [] at hen
    cases st with
    | returned => cases h
    | raised e' => simp only [] at h; cases h; exact hen.2 _ rfl
    | running =>
      simp only [] at h
      have ih1 := fine_list ppi num defs fuel active styles f' kids e hen.1 hb
      generalize specList (liveCfg ppi num) defs fuel active styles f' kids = r1 at ih1 h
      cases hr1 : r1.status with
      | returned => rw [hr1] at h; cases h
      | raised e' => rw [hr1] at h; simp only [] at h; cases h; exact ih1 hr1
      | running =>
        rw [hr1] at h
        simp only [] at h
        cases hut : useTarget defs active tag attrs with
        | none => rw [hut] at h; cases h
        | some it =>
          obtain ⟨i, target⟩ := it
          rw [hut] at h
          simp only [] at h
          obtain ⟨hi, hk⟩ := useTarget_spec defs active tag attrs i target hut
          cases fuel with
          | zero => exact (budget_zero_absurd defs active i hb hi hk).elim
          | succ n =>
            simp only [] at h
            have ih2 := fine_node ppi num defs n (active ++ [i]) r1.styles f' target e hen.1
              (budget_step defs n active i hb hi hk)
            generalize specNode (liveCfg ppi num) defs n (active ++ [i]) r1.styles f' target = r2 at ih2 h
            cases hr2 : r2.status with
            | returned => rw [hr2] at h; cases h
            | running => rw [hr2] at h; cases h
            | raised e' => rw [hr2] at h; simp only [] at h; cases h; exact ih2 hr2
termination_by (fuel, sizeOf x)

theorem fine_list (ppi : K) (num : NumLit → K) (defs : List (String × Xml)) (fuel : Nat) (active : List String)
    (styles : Dict) (f : Frame K) (l : List Xml) (e : PyErr)
    (hf : ScopeFine (liveCfg ppi num) f.vals) (hb : Budget defs fuel active)
    (h : (specList (liveCfg ppi num) defs fuel active styles f l).status = .raised e) : e = .deferred := by
  match l with
  | [] => rw [specList] at h; cases h
  | k :: ks =>
    rw [specList] at h
    have ih1 := fine_node ppi num defs fuel active styles f k e hf hb
    generalize specNode (liveCfg ppi num) defs fuel active styles f k = r1 at ih1 h
    cases hr1 : r1.status with
    | returned => rw [hr1] at h; cases h
    | raised e' => rw [hr1] at h; simp only [] at h; cases h; exact ih1 hr1
    | running =>
      rw [hr1] at h
      simp only [] at h
      exact fine_list ppi num defs fuel active r1.styles f ks e hf hb h
termination_by (fuel, sizeOf l)
end

/-- **No abort.** With the transform parser of stage B as the constructors' parser, for every
    document (any nesting, any attribute text, any `use` graph) whose caller-supplied transform
    is acceptable: the document layer of `SVG.parse` returns — the only other outcome the model
    has is the marker of a length the library keeps symbolic, which is not an exception. No
    ValueError, TypeError, IndexError or RecursionError can leave the loop or a container
    constructor. -/
theorem C10_no_abort (ppi : K) (num : NumLit → K) (f : Frame K) (roots : List Xml)
    (hf : ScopeFine (liveCfg ppi num) f.vals) :
    (∃ shapes, parseDoc (liveCfg ppi num) f roots = .ok shapes) ∨
    parseDoc (liveCfg ppi num) f roots = .error .deferred := by
  have href : parseDoc (liveCfg ppi num) f roots = specDoc (liveCfg ppi num) f roots := by
    unfold parseDoc specDoc events
    obtain ⟨ho, hst, _⟩ := run_semiList (liveCfg ppi num) (idTable roots) ((idTable roots).length + 1) [] roots (initSt f) rfl
    simp only []; rw [hst, ho]; rfl
  rw [href]
  unfold specDoc
  simp only []
  split
  · exact Or.inl ⟨_, rfl⟩
  · exact Or.inl ⟨_, rfl⟩
  · rename_i e hst
    right
    have hb : Budget (idTable roots) ((idTable roots).length + 1) [] :=
      ⟨List.nodup_nil, by simp, by simp [keys]⟩
    rw [fine_list ppi num _ _ _ _ f roots e hf hb hst]

/-- the premise is satisfiable: no caller transform at all -/
example (ppi : K) (num : NumLit → K) (w h : Dim K) :
    ScopeFine (liveCfg ppi num) (initFrame "black" none w h).vals := by
  intro p hp; simp [initFrame] at hp

/-! #### stage B included -/

/-- the pieces of `values["viewport_transform"]` are acceptable too -/
def VtFine (cfg : Cfg K) (v : Vals K) : Prop := ∀ p ∈ v.vt.getD [], PieceFine cfg p

theorem svgEnter_vtfine (cfg : Cfg K) (n : Bool) (vals v : Vals K) (w h w' h' : Dim K)
    (e : svgEnter cfg n vals w h = .ok v w' h') (hf : ScopeFine cfg vals) (hv : VtFine cfg vals) : VtFine cfg v := by
  unfold svgEnter at e
  simp only [] at e
  repeat' split at e
  all_goals first
    | (cases e; done)
    | (injection e with e1 _ _; subst e1
       intro p hp
       first
         | exact hv p hp
         | (simp only [Option.getD_some, List.mem_append, List.mem_singleton] at hp
            rcases hp with h1 | h1
            · exact hf p h1
            · rw [h1]; exact mat_fine cfg _))

theorem useEnter_vtfine (cfg : Cfg K) (vals v : Vals K)
    (e : useEnter cfg vals = .ok v) (hv : VtFine cfg vals) : VtFine cfg v := by
  unfold useEnter at e
  simp only [] at e
  repeat' split at e
  all_goals first
    | (cases e; done)
    | (injection e with e1; subst e1; exact hv)

theorem dispatch_vtfine (cfg : Cfg K) (f : Frame K) (vals : Vals K) (tag : String)
    (hf : ScopeFine cfg vals) (hv : VtFine cfg vals) : VtFine cfg (dispatch cfg f vals tag).1.vals := by
  unfold dispatch
  repeat' split
  all_goals first
    | exact hv
    | (rename_i e; exact svgEnter_vtfine _ _ _ _ _ _ _ _ e hf hv)
    | (rename_i e; exact useEnter_vtfine _ _ _ e hv)
    | (intro p hp; exact hv p hp)

theorem enter_fine2 (ppi : K) (num : NumLit → K) (styles : Dict) (f : Frame K) (tag : String)
    (attrs : List (String × String)) (hf : ScopeFine (liveCfg ppi num) f.vals) (hv : VtFine (liveCfg ppi num) f.vals) :
    (ScopeFine (liveCfg ppi num) (enter (liveCfg ppi num) styles f tag attrs).1.vals ∧
     VtFine (liveCfg ppi num) (enter (liveCfg ppi num) styles f tag attrs).1.vals) ∧
    ∀ r ∈ (enter (liveCfg ppi num) styles f tag attrs).2.1,
      ScopeFine (liveCfg ppi num) r.vals ∧ VtFine (liveCfg ppi num) r.vals := by
  unfold enter
  split
  · exact ⟨⟨hf, hv⟩, by simp⟩
  · have hc := compileVals_fine ppi num styles f tag attrs hf
    have hcv : VtFine (liveCfg ppi num) (compileVals (liveCfg ppi num) styles f tag attrs) := hv
    refine ⟨⟨(dispatch_fine ppi num f _ tag hc).1, dispatch_vtfine _ f _ tag hc hcv⟩, ?_⟩
    intro r hr
    rw [(dispatch_extends (liveCfg ppi num) f _ tag).2 r hr]
    exact ⟨hc, hcv⟩

mutual
theorem recs_fine_node (ppi : K) (num : NumLit → K) (defs : List (String × Xml)) (fuel : Nat) (active : List String)
    (styles : Dict) (f : Frame K) (x : Xml)
    (hf : ScopeFine (liveCfg ppi num) f.vals) (hv : VtFine (liveCfg ppi num) f.vals) :
    ∀ r ∈ (specNode (liveCfg ppi num) defs fuel active styles f x).out,
      ScopeFine (liveCfg ppi num) r.vals ∧ VtFine (liveCfg ppi num) r.vals := by
  match x with
  | .node tag attrs text kids =>
    have he := enter_fine2 ppi num styles f tag attrs hf hv
    rw [specNode]
    rcases hen : enter (liveCfg ppi num) styles f tag attrs with ⟨f', outs, st⟩
    rw [hen] at he
    simp only [] at he ⊢
    have ih1 := recs_fine_list ppi num defs fuel active styles f' kids he.1.1 he.1.2
    cases st with
    | returned => simpa using he.2
    | raised e => simpa using he.2
    | running =>
      simp only []
      generalize specList (liveCfg ppi num) defs fuel active styles f' kids = r1 at ih1 ⊢
      have h1 : ∀ r ∈ outs ++ r1.out, ScopeFine (liveCfg ppi num) r.vals ∧ VtFine (liveCfg ppi num) r.vals := by
        intro r hr
        rcases List.mem_append.mp hr with h' | h'
        · exact he.2 r h'
        · exact ih1 r h'
      cases r1.status with
      | returned => simpa using h1
      | raised e => simpa using h1
      | running =>
        simp only []
        have h2 : ∀ (r2 : Res K), (∀ r ∈ r2.out, ScopeFine (liveCfg ppi num) r.vals ∧ VtFine (liveCfg ppi num) r.vals) →
            ∀ r ∈ outs ++ r1.out ++ r2.out, ScopeFine (liveCfg ppi num) r.vals ∧ VtFine (liveCfg ppi num) r.vals := by
          intro r2 hh r hr
          rcases List.mem_append.mp hr with h' | h'
          · exact h1 r h'
          · exact hh r h'
        cases useTarget defs active tag attrs with
        | none => simp only []; exact h2 ⟨[], r1.styles, .running⟩ (by simp)
        | some it =>
          obtain ⟨i, target⟩ := it
          simp only []
          cases fuel with
          | zero => simp only []; exact h2 ⟨[], r1.styles, .raised .recursion⟩ (by simp)
          | succ n =>
            simp only []
            have ih2 := recs_fine_node ppi num defs n (active ++ [i]) r1.styles f' target he.1.1 he.1.2
            generalize specNode (liveCfg ppi num) defs n (active ++ [i]) r1.styles f' target = r2 at ih2 ⊢
            cases r2.status <;> simp only [] <;> exact h2 r2 ih2
termination_by (fuel, sizeOf x)

theorem recs_fine_list (ppi : K) (num : NumLit → K) (defs : List (String × Xml)) (fuel : Nat) (active : List String)
    (styles : Dict) (f : Frame K) (l : List Xml)
    (hf : ScopeFine (liveCfg ppi num) f.vals) (hv : VtFine (liveCfg ppi num) f.vals) :
    ∀ r ∈ (specList (liveCfg ppi num) defs fuel active styles f l).out,
      ScopeFine (liveCfg ppi num) r.vals ∧ VtFine (liveCfg ppi num) r.vals := by
  match l with
  | [] => rw [specList]; simp
  | k :: ks =>
    rw [specList]
    have ih1 := recs_fine_node ppi num defs fuel active styles f k hf hv
    generalize specNode (liveCfg ppi num) defs fuel active styles f k = r1 at ih1 ⊢
    simp only []
    cases r1.status with
    | returned => simpa using ih1
    | raised e => simpa using ih1
    | running =>
      simp only []
      have ih2 := recs_fine_list ppi num defs fuel active r1.styles f ks hf hv
      intro r hr
      rcases List.mem_append.mp hr with h' | h'
      · exact ih1 r h'
      · exact ih2 r h'
termination_by (fuel, sizeOf l)
end

/-- **No abort, end to end.** `renderDoc` — the event loop, the container constructors and the
    shape constructors with their length, colour, point-list and transform parsers — returns for
    every document whose caller-supplied transform is acceptable, whatever the attribute texts
    are; the only other outcome of the model is the marker of a length the library keeps
    symbolic. -/
theorem C10_render_no_abort (ppi tau : K) (num : NumLit → K) (f : Frame K) (roots : List Xml)
    (hf : ScopeFine (liveCfg ppi num) f.vals) (hv : VtFine (liveCfg ppi num) f.vals) :
    OD (renderDoc (liveCfg ppi num) tau f roots) := by
  unfold renderDoc
  obtain ⟨ho, hst, _⟩ := run_semiList (liveCfg ppi num) (idTable roots) ((idTable roots).length + 1) [] roots (initSt f) rfl
  have hb : Budget (idTable roots) ((idTable roots).length + 1) [] := ⟨List.nodup_nil, by simp, by simp [keys]⟩
  have hrecs := recs_fine_list ppi num (idTable roots) ((idTable roots).length + 1) [] [] f roots hf hv
  have hout : ∀ r ∈ (run (liveCfg ppi num) (initSt f) (events roots)).out,
      (∀ p ∈ r.vals.tf.getD [], PieceFine (liveCfg ppi num) p) ∧ (∀ p ∈ r.vals.vt.getD [], PieceFine (liveCfg ppi num) p) := by
    intro r hr
    unfold events at hr
    rw [ho] at hr
    exact hrecs r (by simpa [initSt] using hr)
  have hall := od_shapesOf (liveCfg ppi num) tau _ hout
  simp only []
  cases hstat : (run (liveCfg ppi num) (initSt f) (events roots)).status with
  | running =>
    simp only []
    apply od_bind hall
    intro _
    exact od_shapesOf _ tau _ (fun r hr => hout r (List.mem_of_mem_filter hr))
  | returned => simp only []; exact od_map _ hall
  | raised e =>
    simp only []
    have he : e = .deferred := by
      unfold events at hstat
      rw [hst] at hstat
      exact fine_list ppi num _ _ _ _ f roots e hf hb hstat
    subst he
    cases hs : shapesOf (liveCfg ppi num) tau (run (liveCfg ppi num) (initSt f) (events roots)).out with
    | ok _ => exact od_err
    | error e' =>
      have := hall e' hs
      subst this
      exact od_err

end Total

section
variable {K : Type} [Add K] [Sub K] [Mul K] [Div K] [Neg K] [Zero K] [One K] [BEq K]
  [LT K] [DecidableLT K] [LE K] [DecidableLE K] [NatCast K]

end
end Svg.Doc
