/-
  Driver.lean — model side of the correspondence check.
  `lake env lean --run Driver.lean < ops.txt`: one operation per input line (TAB-separated),
  one canonical output line per input line.
-/
import SvgVerif.Model.Wire
import SvgVerif.Model.Transform
import SvgVerif.Model.Length
import SvgVerif.Model.Color
import SvgVerif.Model.Viewbox
import SvgVerif.Model.Seg
import SvgVerif.Model.ArcParam
import SvgVerif.Model.BBox
import SvgVerif.Model.Shapes
import SvgVerif.Model.PathParse
import SvgVerif.Spec.PathSpec
import SvgVerif.Model.PathPrint
import SvgVerif.Model.Reverse
import SvgVerif.Model.ArcBezier
import SvgVerif.Model.ArcLen
import SvgVerif.Model.DocShape
import SvgVerif.Model.Reify
import SvgVerif.Model.Write
open Svg Svg.Wire

def fmtMat (m : Mat Float) : String :=
  " ".intercalate [hexOfFloat m.a, hexOfFloat m.b, hexOfFloat m.c, hexOfFloat m.d, hexOfFloat m.e, hexOfFloat m.f]

def fmtPy {α} (f : α → String) : Py α → String
  | .ok a => "OK " ++ f a
  | .error e => fmtErr e

def numF (n : NumLit) : Float := n.toScalar

def fl (s : String) : List Float := (s.splitOn " ").filter (· ≠ "") |>.map floatOfHex

def matOf : List Float → Mat Float
  | [a, b, c, d, e, f] => ⟨a, b, c, d, e, f⟩
  | _ => Mat.identity

def fmtPt (p : Pt Float) : String := hexOfFloat p.x ++ " " ++ hexOfFloat p.y

def prepost (op : String) (m : Mat Float) (a : List Float) : Option (Mat Float) :=
  let g (i : Nat) (d : Float) : Float := a.getD i d
  match op with
  | "pre_scale" => some (m.preScale (g 0 1) (g 1 (g 0 1)) (g 2 0) (g 3 0))
  | "post_scale" => some (m.postScale (g 0 1) (g 1 (g 0 1)) (g 2 0) (g 3 0))
  | "pre_translate" => some (m.preTranslate (g 0 0) (g 1 0))
  | "post_translate" => some (m.postTranslate (g 0 0) (g 1 0))
  | "pre_rotate" => some (m.preRotate (Float.cos (g 0 0)) (Float.sin (g 0 0)) (g 1 0) (g 2 0))
  | "post_rotate" => some (m.postRotate (Float.cos (g 0 0)) (Float.sin (g 0 0)) (g 1 0) (g 2 0))
  | "pre_skew" => some (m.preSkew (Float.tan (g 0 0)) (Float.tan (g 1 0)) (g 2 0) (g 3 0))
  | "post_skew" => some (m.postSkew (Float.tan (g 0 0)) (Float.tan (g 1 0)) (g 2 0) (g 3 0))
  | "pre_skew_x" => some (m.preSkew (Float.tan (g 0 0)) (Float.tan 0) (g 1 0) (g 2 0))
  | "post_skew_x" => some (m.postSkew (Float.tan (g 0 0)) (Float.tan 0) (g 1 0) (g 2 0))
  | "pre_skew_y" => some (m.preSkew (Float.tan 0) (Float.tan (g 0 0)) (g 1 0) (g 2 0))
  | "post_skew_y" => some (m.postSkew (Float.tan 0) (Float.tan (g 0 0)) (g 1 0) (g 2 0))
  | "pre_scale_x" => some (m.preScale (g 0 1) 1 (g 1 0) (g 2 0))
  | "pre_scale_y" => some (m.preScale 1 (g 0 1) (g 1 0) (g 2 0))
  | "post_scale_x" => some (m.postScale (g 0 1) 1 (g 1 0) (g 2 0))
  | "post_scale_y" => some (m.postScale 1 (g 0 1) (g 1 0) (g 2 0))
  | "pre_cat" => some (m.preCat (matOf a))
  | "post_cat" => some (m.postCat (matOf a))
  | _ => none

-- ---------------------------------------------------------------- C12
def lenOfHex (s : String) : Len Float := Len.ofText numF (stringOfHex s).toList

def fmtLen (l : Len Float) : String := "L " ++ hexOfFloat l.amount ++ " " ++ hexOfString l.units.toString

def optF (s : String) : Option Float := if s = "-" then none else some (floatOfHex s)

def relOf (s : String) : Option (RelLen Float) :=
  match s.splitOn ":" with
  | ["num", h] => some (.num (floatOfHex h))
  | ["obj", h] => some (.lenObj (lenOfHex h))
  | ["str", h] => some (.lenStr (lenOfHex h))
  | _ => none

def vbOf (s : String) : Option (Float × Float) :=
  match s.splitOn ":" with
  | [w, h] => some (floatOfHex w, floatOfHex h)
  | _ => none

def fmtVal : LenVal Float → String
  | .num x => "OK N " ++ hexOfFloat x
  | .sym l => "OK " ++ fmtLen l

def c12op (op : String) (a b : Len Float) : String :=
  match op with
  | "add" => fmtPy fmtLen (Len.add a b)
  | "sub" => fmtPy fmtLen (Len.sub a b)
  | "div" => fmtPy (fun x => "N " ++ hexOfFloat x) (Len.div a b)
  | "lt" => fmtPy (fun (t : Bool) => "B " ++ (if t then "1" else "0")) (Len.lt a b)
  | "le" => fmtPy (fun (t : Bool) => "B " ++ (if t then "1" else "0")) (Len.le a b)
  | "gt" => fmtPy (fun (t : Bool) => "B " ++ (if t then "1" else "0")) (Len.lt b a |>.bind fun _ => (do
              let d ← Len.sub a b
              pure (decide (0 < d.amount))))
  | "eq" => "OK B " ++ (if Len.eq 1e-12 a b then "1" else "0")
  | "eqnum" => "OK B " ++ (if Len.eqNum 1e-12 a b.amount then "1" else "0")
  -- reflected operators: `other - self` is `(-self) + other`, `other + self` is `self + other`
  | "rsub" => fmtPy fmtLen (Len.add (Len.neg b) a)
  | "radd" => fmtPy fmtLen (Len.add b a)
  | _ => "bad-op"

-- ---------------------------------------------------------------- C13
def floorF (x : Float) : Int :=
  let f := x.floor
  if f < 0 then -((-f).toUInt64.toNat : Int) else (f.toUInt64.toNat : Int)

instance : Svg.Color.PyRound Float where
  trunc x := if x < 0 then -floorF (-x) else floorF x
  round x :=
    let f := floorF x
    let d := x - x.floor
    if d < 0.5 then f else if d > 0.5 then f + 1 else (if f % 2 == 0 then f else f + 1)
  mod1 x := x - x.floor

def intOf (s : String) : Int := s.toInt?.getD 0

def c13get (ch : String) (v : Nat) : String :=
  match ch with
  | "red" => toString (Color.red v) | "green" => toString (Color.green v)
  | "blue" => toString (Color.blue v) | "alpha" => toString (Color.alpha v)
  | "rgb" => toString (Color.getRgb v) | "bgr" => toString (Color.getBgr v)
  | "argb" => toString (Color.getArgb v) | "rgba" => toString v
  | "hex" => " ".intercalate ((Color.hexDigits v).map toString)
  | _ => "bad-op"

def c13set (ch : String) (v : Nat) (x : Int) : String :=
  match ch with
  | "red" => toString (Color.setRed v x) | "green" => toString (Color.setGreen v x)
  | "blue" => toString (Color.setBlue v x) | "alpha" => toString (Color.setAlpha v x)
  | "rgb" => toString (Color.setRgb x.toNat) | "bgr" => toString (Color.setBgr x.toNat)
  | "argb" => toString (Color.setArgb x.toNat) | "rgba" => toString x.toNat
  | _ => "bad-op"

-- ---------------------------------------------------------------- segments on the wire
instance : FMod Float where
  fmod x y := let r := x - y * (x / y).floor; if r == y then 0 else r

def optPt (a b : String) : Option (Pt Float) := if a = "-" then none else some ⟨floatOfHex a, floatOfHex b⟩

/-- `M sx sy ex ey` | `L ...` | `Z ...` | `Q 6` | `C 8` | `A 11` (start end center prx pry sweep) -/
def segOf (toks : List String) : Option (Seg Float) :=
  match toks with
  | ["M", a, b, c, d] => some (.move (optPt a b) ⟨floatOfHex c, floatOfHex d⟩)
  | ["L", a, b, c, d] => some (.line (optPt a b) ⟨floatOfHex c, floatOfHex d⟩)
  | ["Z", a, b, c, d] => some (.close (optPt a b) ⟨floatOfHex c, floatOfHex d⟩)
  | "Q" :: r => (match r.map floatOfHex with
      | [a, b, c, d, e, f] => some (.quad ⟨a, b⟩ ⟨c, d⟩ ⟨e, f⟩) | _ => none)
  | "C" :: r => (match r.map floatOfHex with
      | [a, b, c, d, e, f, g, h] => some (.cubic ⟨a, b⟩ ⟨c, d⟩ ⟨e, f⟩ ⟨g, h⟩) | _ => none)
  | "A" :: r => (match r.map floatOfHex with
      | [a, b, c, d, e, f, g, h, i, j, k] => some (.arc ⟨⟨a, b⟩, ⟨c, d⟩, ⟨e, f⟩, ⟨g, h⟩, ⟨i, j⟩, k⟩) | _ => none)
  | _ => none

def segOfStr (s : String) : Option (Seg Float) := segOf ((s.splitOn " ").filter (· ≠ ""))

def fmtOptPt : Option (Pt Float) → String
  | none => "- -"
  | some p => fmtPt p

def fmtSeg : Seg Float → String
  | .move s e => "M " ++ fmtOptPt s ++ " " ++ fmtPt e
  | .line s e => "L " ++ fmtOptPt s ++ " " ++ fmtPt e
  | .close s e => "Z " ++ fmtOptPt s ++ " " ++ fmtPt e
  | .quad s c e => "Q " ++ fmtPt s ++ " " ++ fmtPt c ++ " " ++ fmtPt e
  | .cubic s c1 c2 e => "C " ++ fmtPt s ++ " " ++ fmtPt c1 ++ " " ++ fmtPt c2 ++ " " ++ fmtPt e
  | .arc a => "A " ++ fmtPt a.start ++ " " ++ fmtPt a.end_ ++ " " ++ fmtPt a.center ++ " " ++ fmtPt a.prx
      ++ " " ++ fmtPt a.pry ++ " " ++ hexOfFloat a.sweep

def arcEps : Float := 1e-12

def arcOfWire (toks : List String) : Option (ArcData Float) :=
  match toks with
  | [sx, sy, rx, ry, rot, fa, fs, ex, ey] =>
      some (arcOfEndpoint ⟨floatOfHex sx, floatOfHex sy⟩ ⟨floatOfHex ex, floatOfHex ey⟩ (floatOfHex rx) (floatOfHex ry)
        (floatOfHex rot) (fa = "1") (fs = "1"))
  | _ => none


-- ---------------------------------------------------------------- path stack (C01, C09, C17)
def bstr (b : Bool) : String := if b then "1" else "0"

def fmtPSeg : PSeg Float → String
  | .move r s e => "M " ++ bstr r ++ " " ++ fmtOptPt s ++ " " ++ fmtOptPt e
  | .line r s e => "L " ++ bstr r ++ " " ++ fmtOptPt s ++ " " ++ fmtOptPt e
  | .close r s e => "Z " ++ bstr r ++ " " ++ fmtOptPt s ++ " " ++ fmtOptPt e
  | .quad r sm s c e => "Q " ++ bstr r ++ " " ++ bstr sm ++ " " ++ fmtOptPt s ++ " " ++ fmtOptPt c ++ " " ++ fmtOptPt e
  | .cubic r sm s c1 c2 e => "C " ++ bstr r ++ " " ++ bstr sm ++ " " ++ fmtOptPt s ++ " " ++ fmtOptPt c1 ++ " " ++ fmtOptPt c2
      ++ " " ++ fmtOptPt e
  | .arc r s rx ry rot fa fs e => "A " ++ bstr r ++ " " ++ fmtPt s ++ " " ++ hexOfFloat rx ++ " " ++ hexOfFloat ry ++ " "
      ++ hexOfFloat rot ++ " " ++ bstr fa ++ " " ++ bstr fs ++ " " ++ fmtPt e

def fmtPSegs (l : List (PSeg Float)) : String := " | ".intercalate (l.map fmtPSeg)

def fmtParse (r : List (PSeg Float) × Option PyErr) : String :=
  (match r.2 with | none => "OK" | some e => fmtErr e) ++ "\t" ++ fmtPSegs r.1

def cmdOf (toks : List String) : Option (Cmd Float) :=
  let f := floatOfHex
  match toks with
  | ["M", r, x, y] => some (.moveTo (r = "1") ⟨f x, f y⟩)
  | ["L", r, x, y] => some (.lineTo (r = "1") ⟨f x, f y⟩)
  | ["H", r, x] => some (.hTo (r = "1") (f x))
  | ["V", r, y] => some (.vTo (r = "1") (f y))
  | ["Q", r, a, b, c, d] => some (.quadTo (r = "1") ⟨f a, f b⟩ ⟨f c, f d⟩)
  | ["T", r, x, y] => some (.smoothQuadTo (r = "1") ⟨f x, f y⟩)
  | ["C", r, a, b, c, d, e, g] => some (.cubicTo (r = "1") ⟨f a, f b⟩ ⟨f c, f d⟩ ⟨f e, f g⟩)
  | ["S", r, a, b, c, d] => some (.smoothCubicTo (r = "1") ⟨f a, f b⟩ ⟨f c, f d⟩)
  | ["A", r, rx, ry, rot, fa, fs, x, y] => some (.arcTo (r = "1") (f rx) (f ry) (f rot) (fa = "1") (fs = "1") ⟨f x, f y⟩)
  | ["Z", r] => some (.closePath (r = "1"))
  | ["Lz", r] => some (.lineToZ (r = "1"))
  | ["Qz", r, a, b] => some (.quadToZ (r = "1") ⟨f a, f b⟩)
  | ["Tz", r] => some (.smoothQuadToZ (r = "1"))
  | ["Cz", r, a, b, c, d] => some (.cubicToZ (r = "1") ⟨f a, f b⟩ ⟨f c, f d⟩)
  | ["Sz", r, a, b] => some (.smoothCubicToZ (r = "1") ⟨f a, f b⟩)
  | ["Az", r, rx, ry, rot, fa, fs] => some (.arcToZ (r = "1") (f rx) (f ry) (f rot) (fa = "1") (fs = "1"))
  | _ => none

def cmdsOf (s : String) : Option (List (Cmd Float)) :=
  ((s.splitOn "|").filter (fun t => t.trimAscii.toString ≠ "")).mapM fun t => cmdOf ((t.splitOn " ").filter (· ≠ ""))

/-- `float(text)`; `none` when the literal overflows a double -/
def numOvf (n : NumLit) : Option Float := let v := numF n; if v.isInf then none else some v

/-- `Path(a) ; p.parse(b) ; …`: stop at the first exception, as Python would -/
def parseSeq (parts : List String) : List (PSeg Float) × Option PyErr :=
  parts.foldl (fun (acc : List (PSeg Float) × Option PyErr) h =>
    match acc.2 with
    | some _ => acc
    | none => parsePath numOvf acc.1 (stringOfHex h).toList) ([], none)


-- ---------------------------------------------------------------- C07: d()
def fmtCmd : Cmd Float → String
  | .moveTo r p => "M " ++ bstr r ++ " " ++ fmtPt p
  | .lineTo r p => "L " ++ bstr r ++ " " ++ fmtPt p
  | .hTo r x => "H " ++ bstr r ++ " " ++ hexOfFloat x
  | .vTo r y => "V " ++ bstr r ++ " " ++ hexOfFloat y
  | .quadTo r c e => "Q " ++ bstr r ++ " " ++ fmtPt c ++ " " ++ fmtPt e
  | .smoothQuadTo r e => "T " ++ bstr r ++ " " ++ fmtPt e
  | .cubicTo r c1 c2 e => "C " ++ bstr r ++ " " ++ fmtPt c1 ++ " " ++ fmtPt c2 ++ " " ++ fmtPt e
  | .smoothCubicTo r c2 e => "S " ++ bstr r ++ " " ++ fmtPt c2 ++ " " ++ fmtPt e
  | .arcTo r rx ry rot fa fs e => "A " ++ bstr r ++ " " ++ hexOfFloat rx ++ " " ++ hexOfFloat ry ++ " " ++ hexOfFloat rot ++ " "
      ++ bstr fa ++ " " ++ bstr fs ++ " " ++ fmtPt e
  | .closePath r => "Z " ++ bstr r
  | _ => "?"

def optB (s : String) : Option Bool := if s = "1" then some true else if s = "0" then some false else none

/-- `Point.__eq__` in floats: both coordinates within 1e-12 -/
def eqvF (a b : Pt Float) : Bool := (a.x - b.x).abs <= 1e-12 && (a.y - b.y).abs <= 1e-12

-- ---------------------------------------------------------------- C19
instance : CeilNat Float where
  ceilNat x := x.ceil.toUInt64.toNat

def segsOfStr (sg : String) : Option (List (Seg Float)) :=
  ((sg.splitOn "|").filter (fun t => t.trimAscii.toString ≠ "")).mapM segOfStr

def fmtSegs (l : List (Seg Float)) : String := "OK\t" ++ " | ".intercalate (l.map fmtSeg)

def optNat (s : String) : Option Nat := if s = "-" then none else s.toNat?

def convOf (kind : String) (n : Option Nat) (a : ArcData Float) : List (Seg Float) :=
  if kind = "c" then a.cubicCurves n else a.quadCurves n

-- ---------------------------------------------------------------- C15
instance : LogK Float := ⟨Float.log⟩

/-- Python `int(round(x))` for x ≥ 0: round half to even -/
def roundHalfEven (x : Float) : Nat :=
  let f := x.floor
  let d := x - f
  let n := f.toUInt64.toNat
  if d < 0.5 then n else if d > 0.5 then n + 1 else (if n % 2 == 0 then n else n + 1)

def distF (p q : Pt Float) : Float := dist p q

def segLeavesOf (s : Seg Float) (err : Float) (md : Nat) : Nat :=
  match s with
  | .cubic a b c d => let f := Seg.cubicPoint a b c d; segLeaves distF f err md 200 0 1 (f 0) (f 1) 0
  | .arc a => if a.sweep == 0 || fabs (a.rx - a.ry) < (errorEps : Float) then 1
              else segLeaves distF a.point err md 200 0 1 (a.point 0) (a.point 1) 0
  | _ => 1

-- ---------------------------------------------------------------- C11
def boxOf : List Float → Box Float
  | [x, y, w, h] => ⟨x, y, w, h⟩
  | _ => ⟨0, 0, 0, 0⟩

-- ---------------------------------------------------------------- documents (C03, C10, C14, C20)
def hs (s : String) : String := if s = "-" then "" else stringOfHex s

/-- tokens `N tag nattrs (k v)* text nkids kid*` -/
partial def xmlOf : List String → Option (Doc.Xml × List String)
  | "N" :: tag :: na :: rest =>
    let rec attrs (n : Nat) (l : List String) (acc : List (String × String)) : Option (List (String × String) × List String) :=
      match n, l with
      | 0, l => some (acc.reverse, l)
      | n + 1, k :: v :: l => attrs n l ((hs k, hs v) :: acc)
      | _, _ => none
    match attrs na.toNat! rest [] with
    | some (as, text :: nk :: rest2) =>
      let rec kids (n : Nat) (l : List String) (acc : List Doc.Xml) : Option (List Doc.Xml × List String) :=
        match n with
        | 0 => some (acc.reverse, l)
        | n + 1 => match xmlOf l with
          | some (k, l') => kids n l' (k :: acc)
          | none => none
      (match kids nk.toNat! rest2 [] with
       | some (ks, rest3) => some (Doc.Xml.node (hs tag) as (hs text) ks, rest3)
       | none => none)
    | _ => none
  | _ => none

def dimOf (s : String) : Doc.Dim Float :=
  match s.splitOn ":" with
  | ["n", h] => some (.num (floatOfHex h))
  | ["s", h] => some (.lenStr (Len.ofText numF (stringOfHex h).toList))
  | _ => none

def fmtOptNat : Option (Option Nat) → String
  | none => "unset" | some none => "none" | some (some v) => toString v

/-- what `reify()` makes of the shape: new numbers, residual matrix, stroke width -/
def fmtReified (s : Doc.ShapeOut Float) : String :=
  let pairs : List Float → List (Pt Float)
    | l => (List.range (l.length / 2)).map fun i => ⟨l.getD (2 * i) 0, l.getD (2 * i + 1) 0⟩
  let (nums, m) : List Float × Mat Float :=
    if s.tag = "rect" then
      match s.nums with
      | [x, y, w, h] =>
        let (rx, ry) := rectRadii (s.opts.getD 0 none) (s.opts.getD 1 none) w h
        Reify.rect x y w h rx ry s.m
      | _ => (s.nums, s.m)
    else if s.tag = "circle" ∨ s.tag = "ellipse" then
      match s.nums with
      | [cx, cy, rx, ry] => Reify.round cx cy rx ry s.m
      | _ => (s.nums, s.m)
    else if s.tag = "line" ∨ s.tag = "polyline" ∨ s.tag = "polygon" then
      let r := Reify.points (pairs s.nums) s.m
      (r.1.flatMap fun p => [p.x, p.y], r.2)
    else ([], Mat.identity)
  let sw := if Reify.strokeRescaled s.tag s.m then Reify.strokeWidth s.sw s.m s.vt s.nonScaling else s.sw
  "R: " ++ toString nums.length ++ " " ++ " ".intercalate (nums.map hexOfFloat) ++ " " ++ fmtMat m ++ " " ++ hexOfFloat sw

def fmtShape (s : Doc.ShapeOut Float) : String :=
  " ".intercalate [hexOfString s.tag, (match s.id with | some i => "i" ++ hexOfString i | none => "-"),
    fmtOptNat s.fill, fmtOptNat s.stroke, hexOfFloat s.sw, bstr s.nonScaling, fmtMat s.m, fmtMat s.vt,
    toString s.nums.length, " ".intercalate (s.nums.map hexOfFloat),
    " ".intercalate (s.opts.map fun o => match o with | some x => hexOfFloat x | none => "-"),
    "D:" ++ hexOfString s.d,
    fmtReified s,
    -- a path element's data as the character-level parser (Model/PathParse) reads it
    (if s.tag = "path" then "P: " ++ fmtPSegs (parsePath numOvf [] s.d.toList).1 else "P:")]

def docRender (ppi color tf w h tree : String) : String :=
  match xmlOf ((tree.splitOn " ").filter (· ≠ "")) with
  | some (x, _) =>
    let cfg : Doc.Cfg Float := Doc.mkCfg (floatOfHex ppi) numF
    let f := Doc.initFrame (hs color) (if tf = "-" then none else some (stringOfHex tf)) (dimOf w) (dimOf h)
    (match Doc.renderDoc cfg (6.283185307179586 : Float) f [x] with
     | .ok l => "OK\t" ++ "\t".intercalate (l.map fmtShape)
     | .error e => fmtErr e)
  | none => "bad-op"

def step (line : String) : String :=
  match line.splitOn "\t" with
  | ["doc.render", ppi, color, tf, w, h, tree] => docRender ppi color tf w h tree
  | ["c20.written", t, vt] =>
      let vi : Option (Mat Float) := if vt = "-" then none else some (Mat.inverse (matOf (fl vt)))
      "OK " ++ fmtMat (Write.writtenMatrix (matOf (fl t)) vi)
  | ["c20.paint", pv] =>
      let p : Option (Option Nat) :=
        if pv = "unset" then none else if pv = "none" then some none else some (some pv.toNat!)
      let o : Write.PaintOut Float := Write.writtenPaint p
      "OK " ++ (match o.text with | some t => t | none => "-") ++ " " ++
        (match o.opacity with | some x => hexOfFloat x | none => "-")
  | ["c20.dims", vs] =>
      "OK " ++ " ".intercalate ((fl vs).map fun v => match Write.writeDim v with | some x => hexOfFloat x | none => "-")
  | "path.parse" :: parts => fmtParse (parseSeq parts)
  | ["path.d", r, sm, h] =>
      (match parsePath numOvf [] (stringOfHex h).toList with
       | (segs, none) =>
         (match pathD eqvF ⟨optB r, optB sm⟩ segs with
          | some cs => "OK\t" ++ " | ".intercalate (cs.map fmtCmd)
          | none => "NONE\t")
       | (_, some e) => fmtErr e ++ "\t")
  | ["path.reverse", sg] =>
      (match ((sg.splitOn "|").filter (fun t => t.trimAscii.toString ≠ "")).mapM segOfStr with
       | some segs => (match pathReverse segs with
          | some r => "OK\t" ++ " | ".intercalate (r.map fmtSeg)
          | none => "NONE\t")
       | none => "bad-op")
  | ["path.subreverse", i, sg] =>
      (match ((sg.splitOn "|").filter (fun t => t.trimAscii.toString ≠ "")).mapM segOfStr with
       | some segs => (match subReverseAt segs i.toNat! with
          | some r => "OK\t" ++ " | ".intercalate (r.map fmtSeg)
          | none => "NONE\t")
       | none => "bad-op")
  | ["path.spec", c] =>
      (match cmdsOf c with
       | some cs => (match interp cs with | some l => "OK\t" ++ fmtPSegs l | none => "NONE\t")
       | none => "bad-op")
  | ["path.run", c] =>
      (match cmdsOf c with
       | some cs => (match runCmds [] cs with | .ok l => "OK\t" ++ fmtPSegs l | .error e => fmtErr e ++ "\t")
       | none => "bad-op")
  | ["c19.arc", kind, n, sg] =>
      (match segOfStr sg with
       | some (.arc a) => fmtSegs (convOf kind (optNat n) a)
       | _ => "bad-op")
  | ["c19.path", kind, err, sg] =>
      (match segsOfStr sg with
       | some segs =>
         let lim : Float := (Trig.tau : Float) * floatOfHex err
         fmtSegs (approxPath (fun a => convOf kind (some (arcRequired a.sweep lim)) a) eqvF segs)
       | none => "bad-op")
  | ["c15.len", sg, err, md] =>
      (match segOfStr sg with
       | some s => "OK " ++ hexOfFloat (s.length (floatOfHex err) md.toNat! 200) ++ " " ++ toString (segLeavesOf s (floatOfHex err) md.toNat!)
       | none => "bad-op")
  | ["c15.select", ls, ts] =>
      let lens := fl ls
      "OK " ++ " ".intercalate ((fl ts).map fun t =>
        let r := pointSelect roundHalfEven (fun n => Float.ofNat n) lens t
        toString r.1 ++ " " ++ hexOfFloat r.2)
  | ["seg.point", sg, t] =>
      (match segOfStr sg with | some s => "OK " ++ fmtPt (s.point (floatOfHex t)) | none => "bad-op")
  | ["seg.mul", sg, m] =>
      (match segOfStr sg with | some s => "OK " ++ fmtSeg (s.mul (matOf (fl m)) arcEps) | none => "bad-op")
  | ["seg.mulpoints", sg, m, ts] =>
      (match segOfStr sg with
       | some s => let s' := s.mul (matOf (fl m)) arcEps
                   "OK " ++ " ".intercalate ((fl ts).map fun t => fmtPt (s'.point t))
       | none => "bad-op")
  | ["seg.points", sg, ts] =>
      (match segOfStr sg with
       | some s => "OK " ++ " ".intercalate ((fl ts).map fun t => fmtPt (s.point t))
       | none => "bad-op")
  | ["seg.bbox", sg] =>
      (match segOfStr sg with
       | some s => (match s.bbox Float.atan with
          | some b => "OK " ++ " ".intercalate [hexOfFloat b.xmin, hexOfFloat b.ymin, hexOfFloat b.xmax, hexOfFloat b.ymax]
          | none => "OK none")
       | none => "bad-op")
  | ["c06.rect", v, rx, ry] =>
      (match fl v with
       | [x, y, w, h] =>
         let (a, b) := rectRadii (optF rx) (optF ry) w h
         "OK " ++ " | ".intercalate ((rectSegs x y w h a b (1.5707963267948966 : Float)).map fmtSeg)
       | _ => "bad-op")
  | ["c06.round", v] =>
      (match fl v with
       | [cx, cy, rx, ry] => "OK " ++ " | ".intercalate ((roundSegs cx cy rx ry (1.5707963267948966 : Float)).map fmtSeg)
       | _ => "bad-op")
  | ["c06.poly", closed, v] =>
      let xs := fl v
      let rec pairs : List Float → List (Pt Float)
        | a :: b :: r => ⟨a, b⟩ :: pairs r
        | _ => []
      "OK " ++ " | ".intercalate ((polySegs (pairs xs) (closed = "1")).map fmtSeg)
  | ["seg.reverse", sg] =>
      (match segOfStr sg with
       | some s => (match s.reverse with | some r => "OK " ++ fmtSeg r | none => "OK none")
       | none => "bad-op")
  | ["arc.param", a] =>
      (match arcOfWire ((a.splitOn " ").filter (· ≠ "")) with
       | some r => "OK " ++ fmtSeg (.arc r) | none => "bad-op")
  | ["arc.parampoints", a, ts] =>
      (match arcOfWire ((a.splitOn " ").filter (· ≠ "")) with
       | some r => "OK " ++ " ".intercalate ((fl ts).map fun t => fmtPt (r.point t)) | none => "bad-op")
  | ["c11.vt", e, vb, asp] =>
      let a := Aspect.ofAttr (if asp = "-" then none else some (stringOfHex asp).toList)
      let vbo := if vb = "-" then none else some (boxOf (fl vb))
      (match viewportTransform (boxOf (fl e)) vbo a with
       | some m => "OK " ++ fmtMat m
       | none => "OK disabled")
  | ["c13.parse", s] =>
      (match Color.parse numF (6.283185307179586 : Float) (stringOfHex s).toList with
       | some v => "OK " ++ toString v
       | none => "OK None")
  | ["c13.get", ch, v] => "OK " ++ c13get ch v.toNat!
  | ["c13.set", ch, v, x] => "OK " ++ c13set ch v.toNat! (intOf x)
  | ["c13.pack", r, g, b, a] => "OK " ++ toString (Color.pack (intOf r) (intOf g) (intOf b) (intOf a))
  | ["c12.parse", s] => "OK " ++ fmtLen (lenOfHex s)
  | ["c12.value", s, ppi, rel, fs, fh, vb] =>
      fmtVal (Len.value (lenOfHex s) { ppi := optF ppi, rel := relOf rel, fontSize := optF fs,
                                       fontHeight := optF fh, viewbox := vbOf vb })
  | ["c12.op", op, a, b] => c12op op (lenOfHex a) (lenOfHex b)
  | ["c04.mul", a, b] => "OK " ++ fmtMat (Mat.mul (matOf (fl a)) (matOf (fl b)))
  | ["c04.inv", a] => "OK " ++ fmtMat (Mat.inverse (matOf (fl a)))
  | ["c04.apply", a, p] =>
      (match fl p with
       | [x, y] => "OK " ++ fmtPt (Mat.apply (matOf (fl a)) ⟨x, y⟩)
       | _ => "bad-op")
  | ["c04.prepost", op, m, args] =>
      (match prepost op (matOf (fl m)) (fl args) with
       | some r => "OK " ++ fmtMat r
       | none => "bad-op")
  | ["c04.parse", s] => fmtPy fmtMat (parseTransform numF (stringOfHex s).toList)
  | ["c04.lex", s] => toString (repr (lexTransform (stringOfHex s).toList))
  | _ => "bad-op"

partial def loop (h : IO.FS.Stream) (out : IO.FS.Stream) : IO Unit := do
  let line ← h.getLine
  if line.isEmpty then return ()
  let l := if line.endsWith "\n" then (line.dropEnd 1).toString else line
  out.putStrLn (step l)
  loop h out

def main : IO Unit := do
  loop (← IO.getStdin) (← IO.getStdout)
