/-
  Driver.lean — model side of the correspondence check.
  `lake env lean --run Driver.lean < ops.txt`: one operation per input line (TAB-separated),
  one canonical output line per input line.
-/
import SvgVerif.Model.Wire
import SvgVerif.Model.Transform
open Svg Svg.Wire

def fmtMat (m : Mat Float) : String :=
  " ".intercalate [hexOfFloat m.a, hexOfFloat m.b, hexOfFloat m.c, hexOfFloat m.d, hexOfFloat m.e, hexOfFloat m.f]

def fmtPy {α} (f : α → String) : Py α → String
  | .ok a => "OK " ++ f a
  | .error e => fmtErr e

def numF (n : NumLit) : Float := n.toScalar

def fl (s : String) : List Float := (s.splitOn " ").filter (· ≠ "") |>.map floatOfHex

def matOf : List Float → Mat Float
  | [a, b, c, d, e, f] => ⟨a, b, c, d, e, f⟩
  | _ => Mat.identity

def fmtPt (p : Pt Float) : String := hexOfFloat p.x ++ " " ++ hexOfFloat p.y

def prepost (op : String) (m : Mat Float) (a : List Float) : Option (Mat Float) :=
  let g (i : Nat) (d : Float) : Float := a.getD i d
  match op with
  | "pre_scale" => some (m.preScale (g 0 1) (g 1 (g 0 1)) (g 2 0) (g 3 0))
  | "post_scale" => some (m.postScale (g 0 1) (g 1 (g 0 1)) (g 2 0) (g 3 0))
  | "pre_translate" => some (m.preTranslate (g 0 0) (g 1 0))
  | "post_translate" => some (m.postTranslate (g 0 0) (g 1 0))
  | "pre_rotate" => some (m.preRotate (Float.cos (g 0 0)) (Float.sin (g 0 0)) (g 1 0) (g 2 0))
  | "post_rotate" => some (m.postRotate (Float.cos (g 0 0)) (Float.sin (g 0 0)) (g 1 0) (g 2 0))
  | "pre_skew" => some (m.preSkew (Float.tan (g 0 0)) (Float.tan (g 1 0)) (g 2 0) (g 3 0))
  | "post_skew" => some (m.postSkew (Float.tan (g 0 0)) (Float.tan (g 1 0)) (g 2 0) (g 3 0))
  | "pre_skew_x" => some (m.preSkew (Float.tan (g 0 0)) (Float.tan 0) (g 1 0) (g 2 0))
  | "post_skew_x" => some (m.postSkew (Float.tan (g 0 0)) (Float.tan 0) (g 1 0) (g 2 0))
  | "pre_skew_y" => some (m.preSkew (Float.tan 0) (Float.tan (g 0 0)) (g 1 0) (g 2 0))
  | "post_skew_y" => some (m.postSkew (Float.tan 0) (Float.tan (g 0 0)) (g 1 0) (g 2 0))
  | "pre_scale_x" => some (m.preScale (g 0 1) 1 (g 1 0) (g 2 0))
  | "pre_scale_y" => some (m.preScale 1 (g 0 1) (g 1 0) (g 2 0))
  | "post_scale_x" => some (m.postScale (g 0 1) 1 (g 1 0) (g 2 0))
  | "post_scale_y" => some (m.postScale 1 (g 0 1) (g 1 0) (g 2 0))
  | "pre_cat" => some (m.preCat (matOf a))
  | "post_cat" => some (m.postCat (matOf a))
  | _ => none

def step (line : String) : String :=
  match line.splitOn "\t" with
  | ["c04.mul", a, b] => "OK " ++ fmtMat (Mat.mul (matOf (fl a)) (matOf (fl b)))
  | ["c04.inv", a] => "OK " ++ fmtMat (Mat.inverse (matOf (fl a)))
  | ["c04.apply", a, p] =>
      (match fl p with
       | [x, y] => "OK " ++ fmtPt (Mat.apply (matOf (fl a)) ⟨x, y⟩)
       | _ => "bad-op")
  | ["c04.prepost", op, m, args] =>
      (match prepost op (matOf (fl m)) (fl args) with
       | some r => "OK " ++ fmtMat r
       | none => "bad-op")
  | ["c04.parse", s] => fmtPy fmtMat (parseTransform numF (stringOfHex s).toList)
  | ["c04.lex", s] => toString (repr (lexTransform (stringOfHex s).toList))
  | _ => "bad-op"

partial def loop (h : IO.FS.Stream) (out : IO.FS.Stream) : IO Unit := do
  let line ← h.getLine
  if line.isEmpty then return ()
  let l := if line.endsWith "\n" then (line.dropEnd 1).toString else line
  out.putStrLn (step l)
  loop h out

def main : IO Unit := do
  loop (← IO.getStdin) (← IO.getStdout)
