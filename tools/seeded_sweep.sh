#!/bin/bash
# tools/seeded_sweep.sh [ids...]: run every seeded change against its property's quick check, in a scratch copy of the
# repository ($VP_RUN_REPO when started by `vp run --with-repo`, else a temporary worktree), never touching /repo.
# Writes one line per seeded change to seeded_sweep.out: <id> <rc> <summary line>
cd "$(dirname "$0")/.."
ROOT=$(pwd)
R=${VP_RUN_REPO:-}
if [ -z "$R" ]; then
  R=$(mktemp -d /tmp/sweeprepo.XXXX); rmdir $R
  git -C /repo worktree add -q --detach $R HEAD || exit 2
  trap "git -C /repo worktree remove --force $R" EXIT
fi
(cd lean && lake build >/dev/null 2>&1)
OUT=$ROOT/seeded_sweep.out
: > $OUT
IDS="$@"
[ -z "$IDS" ] && IDS=$(ls seeded)
MAN=$(python3 -c "import json;print(' '.join(c['property_id'] for c in json.load(open('MANIFEST.json'))['checks']))")
for m in $IDS; do
  c=$(echo $m | cut -d- -f1)
  case " $MAN " in *" $c "*) ;; *) echo "$m - unclaimed" >> $OUT; continue;; esac
  git -C $R checkout -q -- . ; git -C $R apply $ROOT/seeded/$m/patch.diff 2>/dev/null || { echo "$m - patch-does-not-apply" >> $OUT; continue; }
  SVGELEMENTS_REPO=$R timeout 1800 ./check $c --tier quick > /tmp/sweep.$$.log 2>&1; rc=$?
  git -C $R checkout -q -- .
  echo "$m rc=$rc $(grep -E 'VIOLATION' /tmp/sweep.$$.log | head -1 | cut -c1-120) | $(grep -E 'quick:' /tmp/sweep.$$.log | cut -c1-160)" >> $OUT
  rm -f replays/$c-*.json
done
# the clean tree again, so Generated/ files are left in their clean state
rm -f /tmp/sweep.$$.log
git checkout -- lean/Generated 2>/dev/null
cat $OUT
