#!/bin/bash
# tools/thorough_all.sh [-j N] [ids...]: every check's thorough tier (N at a time, default 1); one summary line each in thorough_all.out
cd "$(dirname "$0")/.."
J=1
if [ "$1" = "-j" ]; then J=$2; shift 2; fi
(cd lean && lake build >/dev/null 2>&1)
: > thorough_all.out
IDS="$@"
[ -z "$IDS" ] && IDS=$(python3 -c "import json;print(' '.join(c['property_id'] for c in json.load(open('MANIFEST.json'))['checks']))")
one() {
  c=$1; s=$(date +%s); log=$(mktemp)
  timeout 5400 ./check $c --tier thorough > $log 2>&1; rc=$?
  echo "$c rc=$rc $(( $(date +%s) - s ))s $(grep -E 'VIOLATION' $log | head -1 | cut -c1-100) | $(grep -E 'thorough:' $log | cut -c1-170)" >> thorough_all.out
  rm -f $log
}
export -f one
echo $IDS | tr ' ' '\n' | xargs -P $J -I{} bash -c 'one {}'
cat thorough_all.out
