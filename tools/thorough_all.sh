#!/bin/bash
# tools/thorough_all.sh [ids...]: every check's thorough tier, one after the other; one summary line each in thorough_all.out
cd "$(dirname "$0")/.."
(cd lean && lake build >/dev/null 2>&1)
: > thorough_all.out
IDS="$@"
[ -z "$IDS" ] && IDS=$(python3 -c "import json;print(' '.join(c['property_id'] for c in json.load(open('MANIFEST.json'))['checks']))")
for c in $IDS; do
  s=$(date +%s)
  timeout 5400 ./check $c --tier thorough > /tmp/thorough_all.$$.log 2>&1; rc=$?
  echo "$c rc=$rc $(( $(date +%s) - s ))s $(grep -E 'VIOLATION' /tmp/thorough_all.$$.log | head -1 | cut -c1-100) | $(grep -E 'thorough:' /tmp/thorough_all.$$.log | cut -c1-170)" >> thorough_all.out
done
rm -f /tmp/thorough_all.$$.log
cat thorough_all.out
