#!/bin/bash
# tools/rebase_seeds.sh: re-apply every seeded change that no longer applies to /repo's HEAD (later fix: commits move
# the context) with fuzz in a scratch worktree, re-run its demonstration with and without it, and store the refreshed diff.
cd "$(dirname "$0")/.."
ROOT=$(pwd)
W=$(mktemp -d /tmp/rebase.XXXX); rmdir $W
git -C /repo worktree add -q --detach $W HEAD || exit 2
trap "git -C /repo worktree remove --force $W" EXIT
for d in seeded/*/; do
  m=$(basename $d)
  git -C $W checkout -q -- .
  if git -C $W apply --check $ROOT/$d/patch.diff 2>/dev/null; then continue; fi
  (cd $W && patch -p1 --fuzz=3 -s < $ROOT/$d/patch.diff) > /tmp/rebase.$$.log 2>&1
  if [ $? -ne 0 ]; then echo "$m: CANNOT-REBASE $(tail -1 /tmp/rebase.$$.log)"; git -C $W checkout -q -- .; find $W -name '*.rej' -o -name '*.orig' | xargs rm -f; continue; fi
  find $W -name '*.orig' | xargs rm -f
  git -C $W diff > /tmp/rebase.$$.diff
  PYTHONPATH=$W timeout 600 /venv/bin/python $ROOT/$d/demo.py > /dev/null 2>&1; with=$?
  git -C $W checkout -q -- .
  PYTHONPATH=$W timeout 600 /venv/bin/python $ROOT/$d/demo.py > /dev/null 2>&1; without=$?
  if [ $with -eq 1 ] && [ $without -eq 0 ]; then
    cp /tmp/rebase.$$.diff $ROOT/$d/patch.diff
    python3 - "$ROOT/$d/meta.json" "$(git -C /repo log --format=%h -1)" <<'PY'
import json,sys
p,h=sys.argv[1],sys.argv[2]
m=json.load(open(p)); m['rebased']="patch re-applied with fuzz onto /repo HEAD %s (later fix: commits moved its context); demonstration re-run: exit 1 with the change, exit 0 without"%h
json.dump(m,open(p,'w'),indent=1)
PY
    echo "$m: rebased"
  else
    echo "$m: REBASED-BUT-DEMO with=$with without=$without"
  fi
done
rm -f /tmp/rebase.$$.*
