#!/usr/bin/env python3
"""Copies confirmed seeded changes from the scratch worktrees into /verif/seeded/<id>-m<k>/."""
import os, json, shutil, glob, re
for conf in sorted(glob.glob('/tmp/wt/C*/out/m*.confirm')):
    d = os.path.dirname(conf)
    pid = d.split('/')[3]
    k = os.path.basename(conf)[:-8]
    txt = open(conf).read().strip()
    ok = 'demo_with=1' in txt and 'demo_without=0' in txt and '21 failed, 404 passed' in txt
    dst = '/verif/seeded/%s-%s' % (pid, k)
    if not ok:
        print('NOT CONFIRMED', pid, k, txt)
        continue
    os.makedirs(dst, exist_ok=True)
    shutil.copy(os.path.join(d, k + '.diff'), os.path.join(dst, 'patch.diff'))
    shutil.copy(os.path.join(d, k + '_demo.py'), os.path.join(dst, 'demo.py'))
    meta = {}
    mj = os.path.join(d, k + '.json')
    if os.path.exists(mj):
        try:
            meta = json.load(open(mj))
        except Exception:
            meta = {"raw": open(mj).read()}
    old = {}
    mp = os.path.join(dst, 'meta.json')
    if os.path.exists(mp):
        old = json.load(open(mp))
    meta['property'] = pid
    meta['confirmed'] = {"ran": "git apply patch.diff in a scratch worktree; demo.py (exit 1 with the change, exit 0 without); "
                                "full pytest suite with the change", "result": txt}
    for key in ('detected_by', 'detection_note'):
        if key in old:
            meta[key] = old[key]
    json.dump(meta, open(mp, 'w'), indent=1)
    print('ok', pid, k)
