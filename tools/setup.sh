#!/bin/sh
# tools/setup.sh: MANIFEST.setup_cmd. Rewrites the generated Lean tables from /repo's working tree first (so the build
# never depends on what happens to be committed under lean/Generated), then builds every Lean target.
cd "$(dirname "$0")/.."
/venv/bin/python harness/regen.py || exit 1
cd lean && lake build
