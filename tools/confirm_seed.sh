#!/bin/bash
# confirm_seed.sh <Cxx>: for each mutation in /tmp/wt/<Cxx>/out, confirm in that scratch worktree:
# demo fails with the change, suite matches baseline, demo passes without. Writes out/m<k>.confirm
ID=$1
WT=/tmp/wt/$ID
cd $WT || exit 2
git checkout -q -- . 
for d in out/m*.diff; do
  k=$(basename $d .diff)
  [ -f out/$k.confirm ] && continue
  git apply $d || { echo "apply-failed" > out/$k.confirm; continue; }
  PYTHONPATH=$WT timeout 600 /venv/bin/python out/${k}_demo.py > out/$k.demo_with.txt 2>&1; with=$?
  suite=$(PYTHONPATH=$WT /venv/bin/python -m pytest -q -p no:cacheprovider --timeout=900 --continue-on-collection-errors 2>&1 | tail -1)
  git checkout -q -- .
  PYTHONPATH=$WT timeout 600 /venv/bin/python out/${k}_demo.py > out/$k.demo_without.txt 2>&1; without=$?
  echo "demo_with=$with demo_without=$without suite=$suite" > out/$k.confirm
done
cat out/*.confirm
