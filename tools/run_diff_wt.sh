#!/bin/bash
# tools/run_diff_wt.sh <patch.diff> <check-id>: run a check against a scratch worktree of /repo with the patch applied (leaves /repo alone)
d="$1"; c="$2"
cd "$(dirname "$0")/.."
R=$(mktemp -d /tmp/seedwt.XXXX); rmdir $R
git -C /repo worktree add -q --detach $R HEAD || exit 2
trap "git -C /repo worktree remove --force $R" EXIT
git -C $R apply "$d" || { echo "patch does not apply"; exit 3; }
mkdir -p /tmp/seedrep
SVGELEMENTS_REPO=$R ./check $c --tier ${TIER:-quick} 2>&1 | tail -${TAILN:-4} | cut -c1-300
for f in replays/$c-*.json; do [ -f "$f" ] && mv "$f" /tmp/seedrep/$(basename $d .diff)-$(basename $f); done
git -C "$(pwd)" checkout -- lean/Generated evidence 2>/dev/null
