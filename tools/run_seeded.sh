#!/bin/sh
# tools/run_seeded.sh <seeded-id> [check-id]   apply a seeded change to /repo, run the quick check, undo it
m="$1"; c="${2:-$(echo $m | cut -d- -f1)}"
cd /verif
if [ -n "$(git -C /repo status --porcelain)" ]; then echo "repo dirty"; exit 3; fi
git -C /repo apply /verif/seeded/$m/patch.diff || { echo "patch does not apply"; exit 3; }
./check $c --tier quick 2>&1 | tail -${TAILN:-5}
git -C /repo checkout -- .
rm -f /verif/replays/$c-*.json
git -C "$(pwd)" checkout -- lean/Generated 2>/dev/null
