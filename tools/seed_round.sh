#!/bin/bash
# seed_round.sh <k1> <k2> <Cxx>...: prepare scratch worktrees /tmp/wt/<Cxx> (outside /repo and /verif) and prompt files
# for a round of seeded changes numbered k1,k2. The sub-agents see only the property text and the worktree.
K1=$1; K2=$2; shift 2
mkdir -p /tmp/wt
for ID in "$@"; do
  WT=/tmp/wt/$ID
  [ -d $WT ] && { git -C /repo worktree remove --force $WT 2>/dev/null; rm -rf $WT; }
  git -C /repo worktree prune
  git -C /repo worktree add -q --detach $WT HEAD || exit 2
  mkdir -p $WT/out
  /venv/bin/python - "$ID" "$K1" "$K2" <<'P'
import json, sys, glob, os
pid, k1, k2 = sys.argv[1:4]
for line in open('/verif/properties.jsonl'):
    p = json.loads(line)
    if p['id'] == pid:
        break
with open('/tmp/wt/%s/out/PROPERTY.txt' % pid, 'w') as f:
    f.write(json.dumps(p, indent=1))
used = []
for m in sorted(glob.glob('/verif/seeded/%s-m*/meta.json' % pid)):
    s = json.load(open(m)).get('summary')
    if s:
        used.append('- ' + s.replace('\n', ' '))
t = open('/verif/tools/seed_prompt.txt').read().replace('PID', pid).replace('K1', k1).replace('K2', k2)
t += "\n\nExtra guidance for this round: do not use `git stash` (the stash is shared between worktrees). Earlier rounds already used the following changes, pick DIFFERENT sites and mechanisms:\n" + "\n".join(used) + "\n"
open('/tmp/wt/prompt_%s.txt' % pid, 'w').write(t)
P
done
