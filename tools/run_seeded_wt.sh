#!/bin/bash
# tools/run_seeded_wt.sh <seeded-id> [check-id]: like run_seeded.sh, but in a scratch worktree of /repo (leaves /repo alone)
m="$1"; c="${2:-$(echo $m | cut -d- -f1)}"
cd "$(dirname "$0")/.."
R=$(mktemp -d /tmp/seedwt.XXXX); rmdir $R
git -C /repo worktree add -q --detach $R HEAD || exit 2
trap "git -C /repo worktree remove --force $R" EXIT
git -C $R apply $(pwd)/seeded/$m/patch.diff || { echo "patch does not apply"; exit 3; }
SVGELEMENTS_REPO=$R ./check $c --tier quick 2>&1 | tail -${TAILN:-5}
rm -f replays/$c-*.json
git -C "$(pwd)" checkout -- lean/Generated 2>/dev/null
