#!/bin/bash
# seedrun.sh <Cxx> <patch.diff> [tier]: apply a seeded change to /repo, run the check, undo.
ID=$1; PATCH=$2; TIER=${3:-quick}
cd /repo && git checkout -q -- . && git apply "$PATCH" || { echo "APPLY-FAILED $PATCH"; exit 2; }
cd /verif && ./check $ID --tier $TIER > /tmp/seedrun.$$.log 2>&1; rc=$?
cd /repo && git checkout -q -- .
grep -E "VIOLATION|KNOWN-FINDING|quick:|thorough:" /tmp/seedrun.$$.log | cut -c1-220
echo "rc=$rc"
rm -f /tmp/seedrun.$$.log
exit $rc
